package c16

import (
	"fmt"
	"math"

	"pgregory.net/rapid"

	"github.com/uhppoted/uhppote-core/types"

	"verif/harness/ev"
	"verif/harness/rp"
)

// NewHHmm takes any two ints: values beyond 24:00 - two-digit ones (25:00, 10:75), components of three and more digits,
// negative ones, the largest ints - are values of the type like any other, and 'for any pair' exactly one of before, equal and
// after holds, in agreement with comparing (hour, minute) lexicographically. (The time-profile validation receives such
// values from applications that build segments with NewHHmm.)
type beyondCase struct {
	V [3][2]int `json:"hours_minutes"`
}

func genComponent(t *rapid.T, label string) int {
	switch rapid.IntRange(0, 7).Draw(t, label+".kind") {
	case 0:
		return rapid.IntRange(0, 24).Draw(t, label)
	case 1:
		return rapid.IntRange(25, 99).Draw(t, label)
	case 2:
		return rapid.IntRange(100, 260).Draw(t, label)
	case 3:
		return rapid.IntRange(-130, -1).Draw(t, label)
	case 4:
		return rapid.SampledFrom([]int{255, 256, 257, 999, 1000, 1440, 6000, 65535, 65536, math.MaxInt32, math.MinInt32, math.MaxInt, math.MinInt, math.MaxInt - 1}).Draw(t, label)
	case 5:
		return rapid.IntRange(0, 59).Draw(t, label)
	case 6:
		return rapid.IntRange(58, 102).Draw(t, label)
	}
	return rapid.Int().Draw(t, label)
}

func genBeyond(t *rapid.T) beyondCase {
	var c beyondCase
	for i := range c.V {
		c.V[i] = [2]int{genComponent(t, "h"), genComponent(t, "m")}
		if i > 0 && rapid.IntRange(0, 2).Draw(t, "related") == 0 {
			// related to the first value: same hour, hour +-1 with the minutes exchanged for minutes +-60 / +-100
			p := c.V[0]
			switch rapid.IntRange(0, 3).Draw(t, "relation") {
			case 0:
				c.V[i] = [2]int{p[0], genComponent(t, "m2")}
			case 1:
				c.V[i] = [2]int{sat(p[0], 1), sat(p[1], -60)}
			case 2:
				c.V[i] = [2]int{sat(p[0], 1), sat(p[1], -100)}
			case 3:
				c.V[i] = [2]int{sat(p[0], -1), sat(p[1], 100)}
			}
		}
	}
	return c
}

// sat adds without wrapping.
func sat(a, d int) int {
	if d > 0 && a > math.MaxInt-d {
		return math.MaxInt
	}
	if d < 0 && a < math.MinInt-d {
		return math.MinInt
	}
	return a + d
}

func lexInts(a, b [2]int) int {
	for i := 0; i < 2; i++ {
		if a[i] < b[i] {
			return -1
		}
		if a[i] > b[i] {
			return 1
		}
	}
	return 0
}

func checkBeyond(c beyondCase) *rp.Fail {
	beyond := false
	for _, v := range c.V {
		if v[0] < 0 || v[0] > 24 || v[1] < 0 || v[1] > 59 {
			beyond = true
		}
	}
	ev.Case("hhmm/values-beyond-24:00", beyond, fmt.Sprint(c))
	if beyond && ev.WantSample("hhmm/values-beyond-24:00") {
		ev.Sample("hhmm/values-beyond-24:00", c)
	}
	var v [3]types.HHmm
	for i := range v {
		v[i] = types.NewHHmm(c.V[i][0], c.V[i][1])
	}
	for i := 0; i < 3; i++ {
		for j := 0; j < 3; j++ {
			before, after, equal := v[i].Before(v[j]), v[i].After(v[j]), v[i].Equals(v[j])
			n := 0
			for _, x := range []bool{before, after, equal} {
				if x {
					n++
				}
			}
			if n != 1 {
				return rp.Failf("types.HHmm/trichotomy/beyond-range", "NewHHmm%v vs NewHHmm%v: before=%v equal=%v after=%v (exactly one must hold)", c.V[i], c.V[j], before, equal, after)
			}
			want := lexInts(c.V[i], c.V[j])
			if before != (want < 0) || after != (want > 0) || equal != (want == 0) {
				return rp.Failf("types.HHmm/order/beyond-range", "NewHHmm%v vs NewHHmm%v: before=%v equal=%v after=%v disagrees with (hour, minute) order", c.V[i], c.V[j], before, equal, after)
			}
			if before != v[j].After(v[i]) || after != v[j].Before(v[i]) {
				return rp.Failf("types.HHmm/mirror/beyond-range", "NewHHmm%v vs NewHHmm%v: before/after are not mirror images", c.V[i], c.V[j])
			}
			for k := 0; k < 3; k++ {
				if v[i].Before(v[j]) && v[j].Before(v[k]) && !v[i].Before(v[k]) {
					return rp.Failf("types.HHmm/transitivity/beyond-range", "NewHHmm%v < NewHHmm%v < NewHHmm%v but not the first before the third", c.V[i], c.V[j], c.V[k])
				}
			}
		}
	}
	return nil
}

func sweepBeyond(yield func(beyondCase) bool) {
	vals := []int{-100, -1, 0, 1, 8, 9, 23, 24, 25, 59, 60, 75, 99, 100, 101, 130, 160, 255, 256, 1000}
	i := 0
	for _, h1 := range []int{-1, 0, 8, 24, 99, 100} {
		for _, m1 := range vals {
			for _, h2 := range []int{h1 - 1, h1, h1 + 1} {
				for _, m2 := range vals {
					i++
					if ev.Mine(i) && !yield(beyondCase{V: [3][2]int{{h1, m1}, {h2, m2}, {h2, m1}}}) {
						return
					}
				}
			}
		}
	}
}
