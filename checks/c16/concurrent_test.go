package c16

import (
	"fmt"
	"sync"
	"time"

	"pgregory.net/rapid"

	"github.com/uhppoted/uhppote-core/types"

	"verif/harness/ev"
	"verif/harness/rp"
	"verif/harness/spec"
)

// Comparisons made by several goroutines at once (a report generator sorting cards by expiry date next to a scheduler comparing
// profile dates): every goroutine compares its OWN pair of dates / HH:mm values / date-time and instant over and over, reusing
// the same values in the same operand positions, and every verdict is that of its own operands.
type concCmpCase struct {
	Dates   [][2]spec.Civil `json:"date_pairs"` // one pair per goroutine
	Rounds  int             `json:"rounds"`
	Workers int             `json:"workers"`
}

func checkConcCmp(c concCmpCase) *rp.Fail {
	ev.Case("concurrent-comparisons", true, fmt.Sprint(c))
	if ev.WantSample("concurrent-comparisons") {
		ev.Sample("concurrent-comparisons", c)
	}
	var mu sync.Mutex
	var fail *rp.Fail
	report := func(f *rp.Fail) {
		mu.Lock()
		if fail == nil {
			fail = f
		}
		mu.Unlock()
	}
	failed := func() bool { mu.Lock(); defer mu.Unlock(); return fail != nil }
	var wg sync.WaitGroup
	start := make(chan struct{})
	for w := 0; w < c.Workers; w++ {
		p := c.Dates[w%len(c.Dates)]
		wg.Add(1)
		go func(w int) {
			defer wg.Done()
			defer func() {
				if x := recover(); x != nil {
					report(rp.Failf("concurrent/panic", "comparing %v with %v panicked: %v", p[0], p[1], x))
				}
			}()
			a, b := types.ToDate(p[0].Y, time.Month(p[0].M), p[0].D), types.ToDate(p[1].Y, time.Month(p[1].M), p[1].D)
			want := lexCivil(p[0], p[1])
			ha, hb := types.NewHHmm(p[0].M, p[0].D), types.NewHHmm(p[1].M, p[1].D)
			wantH := lexInts2(p[0].M, p[0].D, p[1].M, p[1].D)
			da := types.DateTime(time.Date(p[0].Y, time.Month(p[0].M), p[0].D, 12, 0, 0, 0, time.UTC))
			ib := time.Date(p[1].Y, time.Month(p[1].M), p[1].D, 12, 0, 0, 0, time.UTC)
			<-start
			for r := 0; r < c.Rounds && !failed(); r++ {
				if before, after, equal := a.Before(b), a.After(b), a.Equals(b); before != (want < 0) || after != (want > 0) || equal != (want == 0) {
					report(rp.Failf("types.Date/order/concurrent", "goroutine %d of %d, round %d: %v vs %v: before=%v equal=%v after=%v disagrees with the calendar (every goroutine compares its own pair)", w, c.Workers, r, p[0], p[1], before, equal, after))
					return
				}
				if before, after, equal := ha.Before(hb), ha.After(hb), ha.Equals(hb); before != (wantH < 0) || after != (wantH > 0) || equal != (wantH == 0) {
					report(rp.Failf("types.HHmm/order/concurrent", "goroutine %d of %d, round %d: %v vs %v: before=%v equal=%v after=%v disagrees with (hour, minute) order", w, c.Workers, r, ha, hb, before, equal, after))
					return
				}
				if got := da.Before(ib); got != (want < 0) {
					report(rp.Failf("types.DateTime.Before/concurrent", "goroutine %d of %d, round %d: DateTime(noon of %v).Before(noon of %v) = %v", w, c.Workers, r, p[0], p[1], got))
					return
				}
			}
		}(w)
	}
	close(start)
	wg.Wait()
	return fail
}

func lexCivil(a, b spec.Civil) int {
	return lexInts([2]int{a.Y*400 + a.M*32 + a.D, 0}, [2]int{b.Y*400 + b.M*32 + b.D, 0})
}

func lexInts2(h1, m1, h2, m2 int) int { return lexInts([2]int{h1, m1}, [2]int{h2, m2}) }

func genConcCmp(t *rapid.T) concCmpCase {
	c := concCmpCase{Workers: rapid.IntRange(2, 8).Draw(t, "workers"), Rounds: rapid.SampledFrom([]int{200, 2000, 20000}).Draw(t, "rounds")}
	n := rapid.IntRange(2, c.Workers).Draw(t, "pairs")
	for i := 0; i < n; i++ {
		a := spec.Civil{Y: rapid.IntRange(1990, 2040).Draw(t, "y"), M: rapid.IntRange(1, 12).Draw(t, "m"), D: rapid.IntRange(1, 28).Draw(t, "d")}
		b := a
		switch rapid.IntRange(0, 3).Draw(t, "other") {
		case 0:
			b.D = rapid.IntRange(1, 28).Draw(t, "d2")
		case 1:
			b.M = rapid.IntRange(1, 12).Draw(t, "m2")
		case 2:
			b.Y = rapid.IntRange(1990, 2040).Draw(t, "y2")
		}
		c.Dates = append(c.Dates, [2]spec.Civil{a, b})
	}
	return c
}

// Clock readings: the values an application compares are very often what time.Now() just returned - time.Time values that
// carry a monotonic clock reading besides the wall clock. A date-time is before an instant exactly when its whole-second
// timestamp is the smaller one, whatever else the two values carry.
type clockCase struct {
	Pairs int  `json:"pairs"`
	Two   bool `json:"readings_taken_by_two_goroutines,omitempty"`
}

func checkClock(c clockCase) *rp.Fail {
	ev.Case("datetime/raw-clock-readings", true, fmt.Sprint(c))
	for i := 0; i < c.Pairs; i++ {
		a := time.Now()
		var b time.Time
		if c.Two {
			ch := make(chan time.Time, 1)
			go func() { ch <- time.Now() }()
			b = <-ch
		} else {
			for k := 0; k < i%7; k++ {
				_ = time.Now()
			}
			b = time.Now()
		}
		for _, p := range [][2]time.Time{{a, b}, {b, a}, {a, a}, {a, b.Add(time.Second)}, {a.Add(-time.Second), b}} {
			if got, want := types.DateTime(p[0]).Before(p[1]), p[0].Unix() < p[1].Unix(); got != want {
				return rp.Failf("types.DateTime.Before/clock-readings", "DateTime(%v).Before(%v) = %v; the whole-second timestamps are %d and %d (both values are clock readings: they carry a monotonic reading)", p[0], p[1], got, p[0].Unix(), p[1].Unix())
			}
		}
	}
	return nil
}

func sweepClock(yield func(clockCase) bool) {
	for i, c := range []clockCase{{Pairs: 3000}, {Pairs: 1000, Two: true}, {Pairs: 3000}, {Pairs: 1000, Two: true}} {
		if ev.Mine(i) && !yield(c) {
			return
		}
	}
}
