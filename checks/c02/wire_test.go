package c02

import (
	"fmt"

	"pgregory.net/rapid"

	"verif/harness/api"
	"verif/harness/ev"
	"verif/harness/farm"
	"verif/harness/gen"
	"verif/harness/hook"
	"verif/harness/rp"
	"verif/harness/spec"
)

// Socket-layer sample: the reply travels through the library's REAL UDP/TCP driver (loopback controller) on each delivery
// path, and the result is judged by the same oracle. What the driver does with a datagram before the decoder sees it - filters,
// buffers, framing - is part of 'the result is the decoding of the reply': in particular for replies that are byte-for-byte
// identical to their request (set-time echoes the time, open-door door 1 answers 01 at the offset where the request has 01,
// ...), also when the client's bind port and the destination port are the same number.
type wireCase struct {
	Call      spec.Call `json:"call"`
	Reply     []byte    `json:"reply"`
	Path      string    `json:"path"` // broadcast | udp | tcp
	Echo      bool      `json:"reply_is_request_bytes,omitempty"`
	SamePort  bool      `json:"bind_port_equals_destination_port,omitempty"`
	FixedPort bool      `json:"fixed_bind_port,omitempty"`
	Debug     bool      `json:"debug,omitempty"`
}

func checkWire(c wireCase) *rp.Fail {
	f := runWire(c, 1)
	if f != nil {
		// the only timing assumption is that the loopback controller's immediate reply arrives within the timeout: a failure
		// has to persist with 16 times the timeout (a machine under heavy load otherwise shows up as 'i/o timeout')
		if f2 := runWire(c, 16); f2 == nil {
			ev.Inconclusive(1)
			return nil
		} else {
			f = f2
		}
	}
	return f
}

func runWire(c wireCase, scale int) *rp.Fail {
	c.Call = accepted(c.Call)
	f := farm.New()
	defer f.Close()
	ip := [4]byte{127, 0, 5, 1}
	answer := func(r farm.Received) []farm.Action {
		if len(r.Data) != 64 {
			return nil
		}
		return []farm.Action{{Data: c.Reply}}
	}
	cfg := hook.ClientCfg{TimeoutMs: 250 * scale, BindIP: [4]byte{127, 0, 0, 1}, Debug: c.Debug}
	var port uint16
	for try := 0; try < 20 && port == 0; try++ {
		p, err := farm.FreePort(ip)
		if err != nil {
			break
		}
		if c.SamePort || c.FixedPort {
			bp := p
			if !c.SamePort {
				if bp, err = farm.FreePort(cfg.BindIP); err != nil {
					continue
				}
			} else if q, err := farm.FreePortAt(cfg.BindIP, p); err != nil || q != p {
				continue
			}
			cfg.BindPort = bp
		}
		if c.Path == "tcp" {
			if _, err := f.TCP(ip, p, farm.ScriptTCP(answer)); err != nil {
				continue
			}
		} else if _, err := f.UDP(ip, p, farm.Script(answer)); err != nil {
			continue
		}
		port = p
	}
	if port == 0 {
		ev.Excluded("no endpoint", 1)
		return nil
	}
	want := spec.Config{}
	switch c.Path {
	case "broadcast":
		cfg.HasBroadcast, cfg.BroadcastIP, cfg.BroadcastPort = true, ip, port
		want.BroadcastPort = port
	default:
		cfg.Devices = []hook.DeviceCfg{{Name: "w", Serial: c.Call.Serial, HasAddr: true, IP: ip, Port: port, Protocol: c.Path}}
		want.Name, want.ControllerPort = "w", port
	}
	u := hook.Real(cfg)
	res := api.Invoke(u, api.Case{Call: c.Call, V: api.Variant{}})
	expected := spec.Decode(c.Call, want, c.Reply)
	if scale == 1 {
		class := fmt.Sprintf("wire/%s", c.Path)
		ev.Case(class, true, fmt.Sprintf("%s %s %x", c.Call.Op, c.Path, c.Reply))
		if c.Echo {
			ev.Class("wire/reply-identical-to-request", 1)
		}
		if c.SamePort {
			ev.Class("wire/bind-port-equals-destination-port", 1)
		}
	}
	if msg := api.Compare(res, expected); msg != "" {
		return rp.Failf("uhppote."+c.Call.Op+"/real-driver/"+c.Path, "%s over %s through the real driver (bind port %d, destination port %d) with reply %x: %s", c.Call.Op, c.Path, cfg.BindPort, port, c.Reply, msg)
	}
	return nil
}

func genWire(t *rapid.T) wireCase {
	r := genCase(t)
	c := wireCase{Call: accepted(r.Call), Reply: r.Reply, Path: rapid.SampledFrom([]string{"broadcast", "udp", "tcp"}).Draw(t, "path"), Debug: gen.Debug(t, "debug")}
	if rapid.IntRange(0, 2).Draw(t, "echo") == 0 {
		// the operations whose reply can be the very bytes of the request
		c.Call.Op = rapid.SampledFrom([]string{"SetTime", "SetDoorControlState", "OpenDoor", "RecordSpecialEvents", "SetInterlock", "DeleteCard", "SetPCControl", "RestoreDefaultParameters", "SetEventIndex",
			"ActivateKeypads", "SetDoorPasscodes", "DeleteCards", "ClearTimeProfiles", "ClearTaskList", "RefreshTaskList"}).Draw(t, "echo.op")
		if _, ok := spec.Responses[c.Call.Op]; !ok {
			c.Call.Op = "OpenDoor"
		}
		full := gen.Call(t, c.Call.Op)
		full.Call.Serial = c.Call.Serial
		if c.Call.Op == "OpenDoor" || c.Call.Op == "DeleteCard" || c.Call.Op == "SetInterlock" {
			full.Call.Door, full.Call.Card, full.Call.Interlock = 1, 1, 1
		}
		c.Call = accepted(full.Call)
		c.Reply = spec.Request(c.Call)
		c.Echo = true
	}
	switch rapid.IntRange(0, 3).Draw(t, "ports") {
	case 0:
		c.SamePort = c.Path != "tcp"
	case 1:
		c.FixedPort = c.Path != "tcp"
	}
	return c
}

func wireProps() []rp.Prop {
	return []rp.Prop{rp.P[wireCase]{Name: "wire", Checks: ev.Pick(1600, 60000) / ev.Shards(), Gen: genWire, Check: checkWire}}
}
