package c02

import (
	"os"
	"testing"

	"verif/harness/hook"
	"verif/harness/spec"
)

// FuzzReply (thorough tier): coverage-guided mutation of the reply payload of every reply-bearing operation, judged by the
// protocol model like every other case. The header (protocol id, function code, serial number) and the echo fields of the
// request are kept consistent so that the fuzzer spends its time in the field decoders.
func FuzzReply(f *testing.F) {
	if os.Getenv("VERIF_FUZZ") == "" {
		f.Skip("native fuzzing runs in the thorough tier only")
	}
	ops := sweepOps()
	for i, op := range ops {
		_, b := base(op, 405419896)
		f.Add(uint8(i), b[8:], false)
		f.Add(uint8(i), make([]byte, 56), true)
	}
	f.Fuzz(func(t *testing.T, opIx uint8, payload []byte, configured bool) {
		op := ops[int(opIx)%len(ops)]
		call, b := base(op, 405419896)
		copy(b[8:], payload)
		c := replyCase{Call: call, Reply: b}
		if configured {
			c.Cfg = hook.ClientCfg{Devices: []hook.DeviceCfg{{Name: "Alpha", Serial: call.Serial, HasAddr: true, IP: [4]byte{10, 1, 2, 3}, Port: 60000, Protocol: "udp"}}}
		}
		// the echo fields follow the reply (the model judges a mismatch as 'no such record', which is also exercised)
		l := spec.Responses[op]
		switch op {
		case "GetCardByID", "GetCardByIndex":
			if len(payload) > 0 && payload[0]&1 == 0 {
				c.Call.Card = spec.LE32(b[l.Field("card").Off:])
			}
		case "GetTimeProfile":
			if len(payload) > 0 && payload[0]&1 == 0 {
				c.Call.Profile = b[l.Field("profile").Off]
			}
		}
		if x, _ := decide(c); x != nil {
			t.Fatalf("[%s] %s", x.Fingerprint, x.Msg)
		}
	})
}
