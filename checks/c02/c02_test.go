// C02 - replies are interpreted exactly as the protocol defines, sentinels included.
package c02

import (
	"fmt"
	"testing"
	"time"

	"pgregory.net/rapid"

	"verif/harness/api"
	"verif/harness/cold"
	"verif/harness/ev"
	"verif/harness/gen"
	"verif/harness/hook"
	"verif/harness/rp"
	"verif/harness/spec"
)

func TestMain(m *testing.M) {
	time.Local = time.UTC
	ev.Describe("clients with and without debug output, configured controllers with every kind of configured time zone; cold start: fresh processes whose first reply of each type is decoded by 2..16 goroutines at once; for each of the 31 reply-bearing operations: replies with a correct header and a payload assembled field by field from classes (in-domain random, sentinels, echo match/mismatch, out-of-domain: boolean 2..255, non-decimal nibble in any nibble, month 0/13, day 0/32/Feb-30, hour 24+, minute/second 60+, HH:mm 24:01/23:60/25:00), noise in unused bytes; plus sweeps: every payload offset x all 256 byte values on a valid base reply, all 2^16 byte pairs of every HH:mm field, every calendar day of 400 years and every invalid month/day pattern per date field (thorough: all 10^8 BCD patterns of a date field and all 10^6 hhmmss patterns), non-decimal nibbles in every nibble position. Oracle: the independent protocol model's three-valued outcome (exact value / nil / must-fail / fail-or-zero). Non-trivial = expected result non-nil with a non-zero payload field, or a sentinel / out-of-domain class; distinct = distinct (operation, request echo, reply bytes).",
		"process zone pinned to UTC (zones are C13's subject)",
		"two-digit system-date years 69..99 and PINs above 999999 on the wire are outside every stated domain: those fields are not judged",
		"year 0000 dates and 0001-01-01 are not judged")
	ev.Main(m, "C02")
}

type replyCase struct {
	Call  spec.Call      `json:"call"`
	Cfg   hook.ClientCfg `json:"cfg"`
	Reply []byte         `json:"reply"`
}

func configFor(c replyCase) spec.Config {
	cfg := spec.Config{}
	if c.Cfg.HasBroadcast {
		cfg.BroadcastPort = c.Cfg.BroadcastPort
	}
	if d := c.Cfg.Lookup(c.Call.Serial); d != nil {
		cfg.Name = d.Name
		if d.HasAddr && d.Port != 0 {
			cfg.ControllerPort = d.Port
		}
	}
	return cfg
}

func classify(c replyCase, want spec.Outcome) (string, bool) {
	switch {
	case want.MustFail:
		return "sentinel/must-fail", true
	case want.NilOrFail:
		return "sentinel/nil-or-fail", true
	case want.MayFail:
		return "out-of-domain-field", true
	case want.Nil:
		return "sentinel/nil", true
	}
	for _, b := range c.Reply[8:] {
		if b != 0 {
			return "in-domain", true
		}
	}
	return "in-domain/all-zero", false
}

// accepted fills in request arguments from the accepted domain for operations that validate
// their arguments (C02 is about replies; argument validation is C07's subject).
func accepted(c spec.Call) spec.Call {
	switch c.Op {
	case "SetTimeProfile":
		c.From, c.To = spec.Civil{Y: 2024, M: 1, D: 1}, spec.Civil{Y: 2024, M: 12, D: 31}
	case "PutCard":
		if c.Card == 0 || c.Card == 0xffffffff || c.Card == 0x00ffffff {
			c.Card = 8165538
		}
		c.PIN = 0
	case "SetDoorPasscodes":
		c.Door = 1 + c.Door%4
	}
	return c
}

func decide(c replyCase) (*rp.Fail, spec.Outcome) {
	c.Call = accepted(c.Call)
	u, d := hook.Mem(c.Cfg)
	d.Reset(c.Reply)
	res := api.Invoke(u, api.Case{Call: c.Call, V: api.Variant{}})
	want := spec.Decode(c.Call, configFor(c), c.Reply)
	if msg := api.Compare(res, want); msg != "" {
		class := "value"
		switch {
		case res.Panic != nil:
			class = "panic"
		case want.MustFail || want.NilOrFail || want.Nil:
			class = "sentinel"
		case want.MayFail:
			class = "out-of-domain"
		case res.Err != nil:
			class = "rejects-well-formed"
		}
		return rp.Failf("uhppote."+c.Call.Op+"/"+class, "%s with reply %x: %s", c.Call.Op, c.Reply, msg), want
	}
	return nil, want
}

func checkReply(c replyCase) *rp.Fail {
	f, want := decide(c)
	class, nt := classify(c, want)
	ev.Case("op/"+c.Call.Op, nt, c.Call.Op+fmt.Sprint(c.Call.Card, c.Call.Profile)+string(c.Reply))
	ev.Class("class/"+class, 1)
	if ev.WantSample(class + "/" + c.Call.Op) {
		ev.Sample(class+"/"+c.Call.Op, map[string]any{"op": c.Call.Op, "reply": fmt.Sprintf("%x", c.Reply), "expected": fmt.Sprintf("%+v", summary(want))})
	}
	return f
}

func summary(w spec.Outcome) string {
	switch {
	case w.MustFail:
		return "must fail: " + w.Why
	case w.NilOrFail:
		return "nil or fail: " + w.Why
	case w.Nil && w.MayFail:
		return "nil (or fail: out-of-domain field): " + w.Why
	case w.Nil:
		return "nil: " + w.Why
	case w.MayFail:
		return "fail, or " + w.Rec.String()
	}
	return w.Rec.String()
}

func genCase(t *rapid.T) replyCase {
	op := rapid.SampledFrom(spec.ReplyOps).Draw(t, "op")
	for op == "GetDevices" {
		op = "GetDevice"
	}
	call := spec.Call{Op: op, Serial: gen.Serial(t), Card: gen.U32(t, "req.card"), Index: gen.U32(t, "req.index"), Profile: gen.U8(t, "req.profile")}
	if rapid.IntRange(0, 3).Draw(t, "req.card.wiegand") == 0 {
		// a card number of the form people use: facility code and number, FFFNNNNN
		call.Card = uint32(rapid.IntRange(0, 255).Draw(t, "req.card.facility"))*100000 + uint32(rapid.IntRange(0, 65535).Draw(t, "req.card.number"))
	}
	cfg := hook.ClientCfg{Debug: gen.Debug(t, "debug")}
	if rapid.Bool().Draw(t, "has_broadcast") {
		cfg.HasBroadcast, cfg.BroadcastIP, cfg.BroadcastPort = true, [4]byte{192, 168, 1, 255}, gen.Port(t, "bport")
	}
	switch rapid.IntRange(0, 3).Draw(t, "device") {
	case 1:
		cfg.Devices = []hook.DeviceCfg{{Name: "Alpha", Serial: call.Serial, HasAddr: true, IP: [4]byte{10, 1, 2, 3}, Port: gen.Port(t, "cport"), Protocol: rapid.SampledFrom([]string{"udp", "tcp"}).Draw(t, "proto"), TZ: gen.DeviceTZ(t, "tz"), ViaNew: rapid.Bool().Draw(t, "via_new"), Doors: gen.Doors(t, "doors")}}
	case 2:
		cfg.Devices = []hook.DeviceCfg{{Name: "Beta", Serial: call.Serial, TZ: gen.DeviceTZ(t, "tz"), ViaNew: rapid.Bool().Draw(t, "via_new")}}
	case 3:
		cfg.Devices = []hook.DeviceCfg{{Name: "Other", Serial: call.Serial ^ 1, HasAddr: true, IP: [4]byte{10, 1, 2, 4}, Port: 60000, Protocol: "udp"}}
	}
	return replyCase{Call: call, Cfg: cfg, Reply: gen.Reply(t, call)}
}

// base returns a valid, every-field-in-domain, every-field-non-zero reply for op.
func base(op string, serial uint32) (spec.Call, []byte) {
	l := spec.Responses[op]
	b := make([]byte, 64)
	spec.Header(b, 0x17, l.Code, serial)
	call := spec.Call{Op: op, Serial: serial, Card: 8165537, Profile: 29, Index: 77}
	for i, f := range l.Fields {
		p := b[f.Off:]
		switch f.Kind {
		case spec.U8:
			p[0] = byte(3 + i)
		case spec.U16, spec.Version:
			spec.PutLE16(p, uint16(0x0892+i))
		case spec.U32:
			spec.PutLE32(p, uint32(0x01020304+i*0x01010101))
		case spec.Bool:
			p[0] = byte(i % 2)
		case spec.IPv4:
			copy(p, []byte{192, 168, byte(i), 100})
		case spec.AddrPort:
			copy(p, []byte{192, 168, 1, 100, 0x61, 0xea})
		case spec.MAC:
			copy(p, []byte{0x00, 0x66, 0x19, 0x39, 0x55, 0x2d})
		case spec.PIN:
			copy(p, []byte{0x40, 0xe2, 0x01}) // 123456
		case spec.HHmm:
			spec.PutHM(p, spec.HM{H: 8 + i%10, M: 30})
		case spec.Date:
			spec.PutDate(p, spec.Civil{Y: 2024, M: 2, D: 20 + i%9})
		case spec.DateTime:
			spec.PutDateTime(p, spec.CivilDT{Y: 2023, M: 11, D: 30, H: 13, Mi: 14, S: 15})
		case spec.SysDate:
			p[0], p[1], p[2] = 0x24, 0x12, 0x31
		case spec.SysTime:
			p[0], p[1], p[2] = 0x23, 0x59, 0x58
		}
	}
	switch op {
	case "GetCardByID", "GetCardByIndex":
		spec.PutLE32(b[l.Field("card").Off:], call.Card)
	case "GetTimeProfile":
		b[l.Field("profile").Off] = call.Profile
	}
	return call, b
}

func sweepOps() []string {
	var ops []string
	for _, op := range spec.ReplyOps {
		if op != "GetDevices" {
			ops = append(ops, op)
		}
	}
	return ops
}

// sweepOffsets: every operation x every payload offset x all 256 byte values.
func sweepOffsets(yield func(replyCase) bool) {
	idx := 0
	for _, op := range sweepOps() {
		call, b := base(op, 405419896)
		for off := 8; off < 64; off++ {
			for v := 0; v < 256; v++ {
				if !ev.Mine(idx) {
					idx++
					continue
				}
				idx++
				r := append([]byte(nil), b...)
				r[off] = byte(v)
				if !yield(replyCase{Call: call, Reply: r}) {
					return
				}
			}
		}
	}
}

// bulk sweeps over multi-byte field patterns (not hashed: distinct by construction)
func TestSweeps(t *testing.T) {
	if ev.Replaying() || cold.Scenario() != "" {
		t.Skip()
	}
	stop := false
	fail := func(c replyCase, f *rp.Fail) {
		if ev.Failure("sweep", f.Fingerprint, f.Msg, c) {
			t.Errorf("sweep: [%s] %s", f.Fingerprint, f.Msg)
			stop = true
		}
	}
	run := func(class string, call spec.Call, b []byte, n *int64, nt *int64) {
		c := replyCase{Call: call, Reply: b}
		f, want := decide(c)
		*n++
		if _, isNT := classify(c, want); isNT {
			*nt++
		}
		if f != nil {
			fail(c, f)
		}
	}
	idx := 0
	// (1) all 2^16 byte pairs of every HH:mm field
	{
		var n, nt int64
		call, b := base("GetTimeProfile", 405419896)
		for _, f := range spec.Responses["GetTimeProfile"].Fields {
			if f.Kind != spec.HHmm {
				continue
			}
			for v := 0; v < 65536 && !stop; v++ {
				if !ev.Mine(idx) {
					idx++
					continue
				}
				idx++
				r := append([]byte(nil), b...)
				r[f.Off], r[f.Off+1] = byte(v>>8), byte(v)
				run("hhmm", call, r, &n, &nt)
			}
		}
		ev.Bulk("sweep/hhmm-all-byte-pairs", n, nt)
	}
	// (2) date fields: every day of 400 years + every (month, day) pattern 00..99 x 00..99 for sampled years;
	//     thorough: all 10^8 BCD patterns of one date field
	type df struct {
		op   string
		name string
	}
	dateFields := []df{{"GetCardByIndex", "from"}, {"GetCardByID", "to"}, {"GetTimeProfile", "from"}, {"GetTimeProfile", "to"}, {"GetDevice", "date"}}
	for _, d := range dateFields {
		var n, nt int64
		call, b := base(d.op, 405419896)
		off := spec.Responses[d.op].Field(d.name).Off
		for y := 1900; y < 2300 && !stop; y++ {
			for m := 1; m <= 12; m++ {
				for day := 1; day <= spec.DaysIn(y, m); day++ {
					if !ev.Mine(idx) {
						idx++
						continue
					}
					idx++
					r := append([]byte(nil), b...)
					spec.PutDate(r[off:], spec.Civil{Y: y, M: m, D: day})
					run("date", call, r, &n, &nt)
				}
			}
		}
		for _, y := range []int{2, 1900, 1999, 2000, 2023, 2024, 2100, 9999} {
			for md := 0; md < 10000 && !stop; md++ {
				if !ev.Mine(idx) {
					idx++
					continue
				}
				idx++
				r := append([]byte(nil), b...)
				r[off], r[off+1], r[off+2], r[off+3] = byte((y/1000)<<4|(y/100)%10), byte(((y/10)%10)<<4|y%10), byte((md/1000)<<4|(md/100)%10), byte(((md/10)%10)<<4|md%10)
				run("date", call, r, &n, &nt)
			}
		}
		// non-decimal nibble in every nibble position
		for nib := 0; nib < 8; nib++ {
			for v := 10; v < 16; v++ {
				r := append([]byte(nil), b...)
				if nib%2 == 0 {
					r[off+nib/2] = r[off+nib/2]&0x0f | byte(v)<<4
				} else {
					r[off+nib/2] = r[off+nib/2]&0xf0 | byte(v)
				}
				run("date", call, r, &n, &nt)
			}
		}
		ev.Bulk("sweep/date-patterns/"+d.op+"."+d.name, n, nt)
	}
	if ev.Thorough() && !stop {
		var n, nt int64
		call, b := base("GetCardByIndex", 405419896)
		off := spec.Responses["GetCardByIndex"].Field("from").Off
		for v := ev.Shard(); v < 100000000 && !stop; v += ev.Shards() {
			r := append([]byte(nil), b...)
			x := v
			for i := 3; i >= 0; i-- {
				r[off+i] = byte(((x/10)%10)<<4 | x%10)
				x /= 100
			}
			run("date", call, r, &n, &nt)
		}
		ev.Bulk("sweep/date-all-10^8-bcd-patterns", n, nt)
	}
	// (3) date-time fields: all hhmmss patterns (quick: hh,mm,ss each 00..99 in two of three positions; thorough: all 10^6)
	// boundary date-times next to the sentinels and at the ends of centuries / years / months
	{
		var n, nt int64
		bases := []spec.CivilDT{}
		for _, y := range []int{1, 2, 99, 100, 1899, 1900, 1969, 1970, 1999, 2000, 2001, 2038, 2099, 2100, 9999} {
			for _, md := range [][2]int{{1, 1}, {1, 2}, {2, 28}, {3, 1}, {6, 30}, {12, 31}} {
				for _, hms := range [][3]int{{0, 0, 0}, {0, 0, 1}, {12, 0, 0}, {23, 59, 59}} {
					if y == 1 && md == [2]int{1, 1} {
						continue
					}
					bases = append(bases, spec.CivilDT{Y: y, M: md[0], D: md[1], H: hms[0], Mi: hms[1], S: hms[2]})
				}
			}
		}
		for _, d := range []df{{"GetTime", "datetime"}, {"SetTime", "datetime"}, {"GetEvent", "timestamp"}, {"GetStatus", "event.timestamp"}} {
			call, b := base(d.op, 405419896)
			off := spec.Responses[d.op].Field(d.name).Off
			for _, dt := range bases {
				r := append([]byte(nil), b...)
				spec.PutDateTime(r[off:], dt)
				run("datetime", call, r, &n, &nt)
			}
		}
		ev.Bulk("sweep/datetime-boundaries", n, nt)
	}
	for _, d := range []df{{"GetTime", "datetime"}, {"GetEvent", "timestamp"}, {"GetStatus", "event.timestamp"}} {
		var n, nt int64
		call, b := base(d.op, 405419896)
		off := spec.Responses[d.op].Field(d.name).Off
		limit := 1000000
		for v := 0; v < limit && !stop; v++ {
			hh, mm, ss := v/10000, (v/100)%100, v%100
			if !ev.Thorough() && !(hh == 0 || hh == 23 || hh == 24 || hh == 25) && !(mm == 59 || mm == 60) && !(ss == 59 || ss == 60) && !(mm == 0 && ss == 0) && v%97 != 0 {
				continue
			}
			if !ev.Mine(idx) {
				idx++
				continue
			}
			idx++
			r := append([]byte(nil), b...)
			r[off+4], r[off+5], r[off+6] = byte((hh/10)<<4|hh%10), byte((mm/10)<<4|mm%10), byte((ss/10)<<4|ss%10)
			run("datetime", call, r, &n, &nt)
		}
		for nib := 0; nib < 14; nib++ {
			for v := 10; v < 16; v++ {
				r := append([]byte(nil), b...)
				if nib%2 == 0 {
					r[off+nib/2] = r[off+nib/2]&0x0f | byte(v)<<4
				} else {
					r[off+nib/2] = r[off+nib/2]&0xf0 | byte(v)
				}
				run("datetime", call, r, &n, &nt)
			}
		}
		ev.Bulk("sweep/datetime-time-patterns/"+d.op, n, nt)
	}
	// (4) status system date (yymmdd) x system time: all 10^6 yymmdd patterns (thorough) / structured subset
	{
		var n, nt int64
		call, b := base("GetStatus", 405419896)
		l := spec.Responses["GetStatus"]
		doff, toff := l.Field("system.date").Off, l.Field("system.time").Off
		for v := 0; v < 1000000 && !stop; v++ {
			yy, mm, dd := v/10000, (v/100)%100, v%100
			if !ev.Thorough() && !(mm <= 13 && dd <= 32) && v%89 != 0 {
				continue
			}
			if !ev.Mine(idx) {
				idx++
				continue
			}
			idx++
			r := append([]byte(nil), b...)
			r[doff], r[doff+1], r[doff+2] = byte((yy/10)<<4|yy%10), byte((mm/10)<<4|mm%10), byte((dd/10)<<4|dd%10)
			run("sysdate", call, r, &n, &nt)
		}
		for v := 0; v < 1000000 && !stop; v++ {
			hh, mm, ss := v/10000, (v/100)%100, v%100
			if !ev.Thorough() && !(hh == 0 || hh == 23 || hh == 24 || hh == 25) && !(mm == 59 || mm == 60) && !(ss == 59 || ss == 60) && !(mm == 0 && ss == 0) && v%97 != 0 {
				continue
			}
			if !ev.Mine(idx) {
				idx++
				continue
			}
			idx++
			r := append([]byte(nil), b...)
			r[toff], r[toff+1], r[toff+2] = byte((hh/10)<<4|hh%10), byte((mm/10)<<4|mm%10), byte((ss/10)<<4|ss%10)
			run("systime", call, r, &n, &nt)
		}
		ev.Bulk("sweep/status-system-date-time", n, nt)
	}
	// (5) bit walks of every 32-bit field
	{
		var n, nt int64
		for _, op := range sweepOps() {
			call, b := base(op, 405419896)
			for _, f := range spec.Responses[op].Fields {
				if f.Kind != spec.U32 {
					continue
				}
				for bit := 0; bit < 32; bit++ {
					for _, inv := range []bool{false, true} {
						r := append([]byte(nil), b...)
						v := uint32(1) << bit
						if inv {
							v = ^v
						}
						spec.PutLE32(r[f.Off:], v)
						run("u32", call, r, &n, &nt)
					}
				}
			}
		}
		ev.Bulk("sweep/u32-bit-walks", n, nt)
	}
}

// histories: several calls on ONE client (and its transport); each result must be the decoding of its own reply -
// nothing may be carried over from an earlier call (caches, reused buffers, lazily initialised state).
type history struct {
	Cfg   hook.ClientCfg `json:"cfg"`
	Steps []replyCase    `json:"steps"`
}

func checkHistory(h history) *rp.Fail {
	u, d := hook.Mem(h.Cfg)
	for i, c := range h.Steps {
		c.Cfg = h.Cfg
		c.Call = accepted(c.Call)
		d.Reset(c.Reply)
		res := api.Invoke(u, api.Case{Call: c.Call, V: api.Variant{}})
		want := spec.Decode(c.Call, configFor(c), c.Reply)
		class, nt := classify(c, want)
		ev.Case("history/op/"+c.Call.Op, nt, fmt.Sprint(i, c.Call.Op, c.Call.Card, c.Call.Profile)+string(c.Reply))
		ev.Class("class/"+class, 1)
		if i > 0 {
			ev.Class("history/call-after-earlier-calls", 1)
		}
		if msg := api.Compare(res, want); msg != "" {
			return rp.Failf("uhppote."+c.Call.Op+"/history", "call %d of a sequence on one client: %s with reply %x: %s", i, c.Call.Op, c.Reply, msg)
		}
		if len(d.Sends()) != 1 {
			return rp.Failf("uhppote."+c.Call.Op+"/history-sends", "call %d of a sequence made %d transport calls", i, len(d.Sends()))
		}
	}
	return nil
}

func genHistory(t *rapid.T) history {
	first := genCase(t)
	h := history{Cfg: first.Cfg, Steps: []replyCase{first}}
	n := rapid.IntRange(1, 7).Draw(t, "more")
	for i := 0; i < n; i++ {
		c := genCase(t)
		switch rapid.IntRange(0, 4).Draw(t, "relation") {
		case 4:
			// the controller says 'nothing here' for one index / card / profile (echoing it), and is then asked for a NEIGHBOURING or
			// LOWER one, which it has: what it said about one record says nothing about another (an event log that has restarted,
			// a card that was deleted and its neighbour not)
			prev := h.Steps[len(h.Steps)-1]
			op := rapid.SampledFrom([]string{"GetEvent", "GetEvent", "GetCardByIndex", "GetCardByID", "GetTimeProfile"}).Draw(t, "related.op")
			x := uint32(rapid.IntRange(2, 100000).Draw(t, "related.x"))
			a := replyCase{Call: spec.Call{Op: op, Serial: prev.Call.Serial, Index: x, Card: x, Profile: uint8(2 + x%250)}, Cfg: prev.Cfg}
			a.Reply = gen.Reply(t, a.Call)
			l := spec.Responses[op]
			switch op {
			case "GetEvent":
				a.Reply = make([]byte, 64)
				spec.Header(a.Reply, 0x17, l.Code, a.Call.Serial)
				spec.PutLE32(a.Reply[l.Field("index").Off:], x)
				a.Reply[l.Field("type").Off] = 0xff
			case "GetCardByIndex", "GetCardByID":
				spec.PutLE32(a.Reply[l.Field("card").Off:], rapid.SampledFrom([]uint32{0, 0xffffffff}).Draw(t, "related.sentinel"))
			case "GetTimeProfile":
				a.Reply[l.Field("profile").Off] = 0
			}
			h.Steps = append(h.Steps, a)
			y := []uint32{x - 1, x / 2, 1, x + 1, x}[rapid.IntRange(0, 4).Draw(t, "related.y")]
			c = replyCase{Call: spec.Call{Op: op, Serial: prev.Call.Serial, Index: y, Card: y, Profile: uint8(2 + y%250)}, Cfg: prev.Cfg}
			c.Reply = gen.Payload(t, l, 0x17, c.Call.Serial, 0, false)
			switch op {
			case "GetEvent":
				spec.PutLE32(c.Reply[l.Field("index").Off:], y)
				if c.Reply[l.Field("type").Off] == 0xff || c.Reply[l.Field("type").Off] == 0 {
					c.Reply[l.Field("type").Off] = 1
				}
			case "GetCardByID":
				spec.PutLE32(c.Reply[l.Field("card").Off:], y)
			case "GetTimeProfile":
				c.Reply[l.Field("profile").Off] = c.Call.Profile
			}
		case 0: // same operation and controller as the previous call, another reply
			prev := h.Steps[len(h.Steps)-1]
			c.Call.Op, c.Call.Serial = prev.Call.Op, prev.Call.Serial
			c.Reply = gen.Reply(t, c.Call)
		case 1: // same controller, other operation
			c.Call.Serial = h.Steps[len(h.Steps)-1].Call.Serial
			c.Reply = gen.Reply(t, c.Call)
		case 2: // the previous call again with a reply that differs in ONE payload byte by one step (what a cache keyed on a truncated or hashed reply gets wrong)
			prev := h.Steps[len(h.Steps)-1]
			c = replyCase{Call: prev.Call, Cfg: prev.Cfg, Reply: append([]byte(nil), prev.Reply...)}
			if len(c.Reply) == 64 {
				off := rapid.IntRange(8, 63).Draw(t, "perturb.offset")
				if rapid.Bool().Draw(t, "perturb.field") {
					// prefer the last byte of a multi-byte field (seconds, minutes, day, low PIN byte ...)
					fs := spec.Responses[c.Call.Op].Fields
					f := fs[rapid.IntRange(0, len(fs)-1).Draw(t, "perturb.which")]
					if f.Kind != spec.Serial {
						off = f.Off + f.Kind.Width() - 1 - rapid.IntRange(0, 1).Draw(t, "perturb.back")%f.Kind.Width()
					}
				}
				if c.Reply[off]&0x0f < 9 {
					c.Reply[off]++
				} else {
					c.Reply[off]--
				}
			}
		}
		h.Steps = append(h.Steps, c)
	}
	return h
}

func props() []rp.Prop {
	return []rp.Prop{
		rp.P[history]{Name: "history", Checks: ev.Pick(20000, 2000000) / ev.Shards(), Gen: genHistory, Check: checkHistory},
		rp.P[replyCase]{Name: "reply", Checks: ev.Pick(120000, 6000000) / ev.Shards(), Gen: genCase, Sweep: sweepOffsets, Check: checkReply},
		rp.P[replyCase]{Name: "sweep", Check: checkReply},
		cold.Prop{Name: "cold", Scenario: "replies", N: ev.Pick(24, 480) / ev.Shards()},
	}
}

func TestC02(t *testing.T) {
	if cold.Scenario() != "" {
		t.Skip("cold-start child")
	}
	rp.RunAll(t, append(props(), wireProps()...)...)
}

// TestColdChild (fresh child process only, see harness/cold): the first reply of every type that this process decodes
// is decoded by a group of goroutines released together, each on its own client; every result is judged by the
// ordinary oracle.
func TestColdChild(t *testing.T) {
	if cold.Scenario() == "" {
		t.Skip("cold-start child only")
	}
	k := cold.Index()
	g := []int{2, 3, 4, 8, 12, 16}[k%6]
	n := 0
	ops := sweepOps()
	for i := range ops {
		op := ops[(i+k)%len(ops)]
		call, reply := base(op, 405419896)
		cfg := hook.ClientCfg{}
		if k%3 == 1 {
			cfg.Devices = []hook.DeviceCfg{{Name: "Alpha", Serial: call.Serial, HasAddr: true, IP: [4]byte{10, 1, 2, 3}, Port: 60000, Protocol: "udp"}}
		}
		fails := make([]*rp.Fail, g)
		cold.Release(g, func(w int) {
			cold.Stagger((w * (1 + k%5)) % 61)
			fails[w], _ = decide(replyCase{Call: call, Cfg: cfg, Reply: reply})
		})
		for _, f := range fails {
			n++
			if f != nil {
				cold.Report(f.Fingerprint, f.Msg, replyCase{Call: call, Cfg: cfg, Reply: reply})
			}
		}
	}
	cold.Done(n)
}
func TestReplay(t *testing.T) { rp.ReplayAll(t, append(props(), wireProps()...)...) }
