// C10 - the event listener delivers every valid event once, in order, and nothing else.
package c10

import (
	"fmt"
	"net"
	"net/netip"
	"os"
	"strconv"
	"strings"
	"sync"
	"syscall"
	"testing"
	"time"

	"github.com/uhppoted/uhppote-core/types"
	"github.com/uhppoted/uhppote-core/uhppote"
	"pgregory.net/rapid"

	"verif/harness/api"
	"verif/harness/ev"
	"verif/harness/farm"
	"verif/harness/gen"
	"verif/harness/hook"
	"verif/harness/rp"
	"verif/harness/spec"
)

func TestMain(m *testing.M) {
	time.Local = time.UTC
	ev.Describe("histories of 1..3 start/stop cycles of the real listener on a loopback address; per cycle one datagram sent from inside the connected callback and 1..4 batches of 1..40 datagrams written by one goroutine from 1..3 sender sockets (arrival order = send order): valid events (every field generated, protocol id 0x17 and the v6.62 0x19, with and without an event record) and the malformed classes {wrong length, serial 0, wrong function code, wrong protocol id, bad boolean, non-decimal nibble, impossible system date / time}. Oracle (model built from the independent protocol decoder): the recorded event callbacks must be exactly the valid datagrams, in order, every field equal to the protocol decoding, with a deep snapshot taken at callback time equal to the same status object re-read at the end (no aliasing of the reused receive buffer); the number of error callbacks equals the number of other datagrams; exactly one connected callback, before anything else; after the stop signal Listen returns nil and the listen address can be bound again at once. Non-trivial = batch with >= 1 valid and >= 1 malformed datagram; distinct = distinct history.",
		"an event whose timestamp is BCD-clean but calendar-impossible may be delivered with a zero timestamp or reported as an error (C02 allows the first, C10 the second)",
		"the relative order of event callbacks and error callbacks is not specified (they run on different goroutines) and is not judged",
		"a failing history is re-run once: only a reproducible verdict counts (loopback never drops these small batches)")
	ev.Main(m, "C10")
}

type dgram struct {
	Data   []byte `json:"data"`
	Sender int    `json:"sender"`
}

type cycle struct {
	Hello   dgram     `json:"hello"` // sent from inside OnConnected
	Batches [][]dgram `json:"batches"`
	// Stop: how the listener is signalled - "" the channel is closed; "INT", "TERM", "HUP", "USR1", "QUIT" that signal is sent; "#N" the signal with number N;
	// "HUP+TERM" / "TERM+INT" two signals are delivered one after the other (buffered channel). The first signal stops it.
	Stop string `json:"stop,omitempty"`
}

func stopSignal(q chan os.Signal, how string) {
	sig := map[string]os.Signal{"INT": syscall.SIGINT, "TERM": syscall.SIGTERM, "HUP": syscall.SIGHUP, "USR1": syscall.SIGUSR1, "QUIT": syscall.SIGQUIT}
	if how == "" {
		close(q)
		return
	}
	for _, name := range strings.Split(how, "+") {
		var v os.Signal = sig[name]
		if strings.HasPrefix(name, "#") {
			// any signal number: what arrives on the channel is a request to stop whatever its value (an application that calls
			// signal.Notify(q) without a list relays every signal there is - SIGURG, SIGWINCH, SIGCHLD ... included)
			n, _ := strconv.Atoi(name[1:])
			v = syscall.Signal(n)
		}
		select {
		case q <- v:
		case <-time.After(2 * time.Second): // nobody is listening to the channel any more
		}
	}
}

type history struct {
	Cycles []cycle `json:"cycles"`
	// client configuration that must not matter to what is delivered: debug output, configured controllers (some with the
	// serial numbers the events carry) and their configured time zones
	Debug   bool             `json:"debug,omitempty"`
	Devices []hook.DeviceCfg `json:"devices,omitempty"`
	// OneClient: every start/stop cycle runs on the SAME client instance (nothing may be carried from one Listen call to the
	// next); otherwise each cycle builds a new client
	OneClient bool `json:"one_client,omitempty"`
	// Calls: between the batches of a cycle the client also makes requests (GetDevices / GetTime time out on a silent
	// broadcast address) - listening and calling share the client
	Calls bool `json:"calls,omitempty"`
	// BusyFirst: before cycle N (1-based; 0 = never) the client first tries to listen while ANOTHER socket holds the listen
	// address: that attempt ends (error or not) without a connected callback; once the address is free the cycle runs as usual
	BusyFirst int `json:"busy_first,omitempty"`
	// WaitInConnected: the connected callback does not return before the datagram it sent from inside has been answered by
	// a callback (or 1.5 s have passed): datagrams received while it is still running are delivered like any other
	WaitInConnected bool `json:"wait_in_connected,omitempty"`
	// BindPort: the client has a fixed bind port (bind address 0.0.0.0) and sender 0 sends FROM that port number (on its own
	// loopback address) - where a datagram comes from does not matter
	BindPort bool `json:"bind_port,omitempty"`
	// ErrReturn: what the error callback returns (0 true, 1 false, 2 alternating)
	ErrReturn int `json:"err_return,omitempty"`
}

// outcome of one datagram according to the protocol model
type outcome struct {
	kind string // event | error | either
	rec  spec.Rec
	skip map[string]bool
}

func model(d []byte) outcome {
	if len(d) != 64 || spec.LE32(d[4:]) == 0 || (d[0] != 0x17 && d[0] != 0x19) || d[1] != 0x20 {
		return outcome{kind: "error"}
	}
	raw := spec.EventLayout.Raw(d)
	rec, skip := spec.Rec{}, map[string]bool{}
	spec.StatusRec(raw, d, rec, skip)
	bad, onlyTimestampCalendar := false, true
	for name, v := range raw {
		if !v.InDomain {
			bad = true
			if name != "event.timestamp" || !bcdClean(d[20:27]) {
				onlyTimestampCalendar = false
			}
		}
		if !v.Judge {
			switch name {
			case "event.timestamp":
				skip[name] = true
			}
		}
	}
	if bad && onlyTimestampCalendar {
		return outcome{kind: "either", rec: rec, skip: skip}
	}
	if bad {
		return outcome{kind: "error"}
	}
	return outcome{kind: "event", rec: rec, skip: skip}
}

func bcdClean(b []byte) bool {
	for _, x := range b {
		if x>>4 > 9 || x&0x0f > 9 {
			return false
		}
	}
	return true
}

type logged struct {
	status *types.Status
	snap   string
}

type recorder struct {
	mu        sync.Mutex
	connected int
	early     int // callbacks before OnConnected
	events    []logged
	errors    []string
	errObjs   []error
	onConnect func()
	// errReturn: what OnError returns - 0 true, 1 false, 2 alternating. The statement gives the return value no meaning: every
	// datagram is still answered by exactly one callback and the listener stops only when it is signalled
	errReturn int
}

func (r *recorder) OnConnected() {
	r.mu.Lock()
	r.connected++
	f := r.onConnect
	r.mu.Unlock()
	if f != nil {
		f()
	}
}

func (r *recorder) OnEvent(s *types.Status) {
	r.mu.Lock()
	if r.connected == 0 {
		r.early++
	}
	r.events = append(r.events, logged{s, api.StatusRec(*s).String()})
	r.mu.Unlock()
}

func (r *recorder) OnError(err error) bool {
	r.mu.Lock()
	if r.connected == 0 {
		r.early++
	}
	r.errors = append(r.errors, err.Error())
	r.errObjs = append(r.errObjs, err)
	n := len(r.errors)
	r.mu.Unlock()
	switch r.errReturn {
	case 1:
		return false
	case 2:
		return n%2 == 0
	}
	return true
}

func (r *recorder) counts() (int, int) {
	r.mu.Lock()
	defer r.mu.Unlock()
	return len(r.events), len(r.errors)
}

func run(h history) *rp.Fail {
	port, err := farm.FreePort([4]byte{127, 0, 0, 1})
	if err != nil {
		ev.HarnessError("no free port: %v", err)
		return nil
	}
	listen := netip.AddrPortFrom(netip.AddrFrom4([4]byte{127, 0, 0, 1}), port)
	var senders []*net.UDPConn
	bindPort := uint16(0)
	if h.BindPort {
		if p, err := farm.FreePort([4]byte{127, 0, 0, 2}); err == nil {
			bindPort = p
		}
	}
	for i := 0; i < 3; i++ {
		sp := 0
		if i == 0 {
			sp = int(bindPort)
		}
		c, err := net.ListenUDP("udp4", &net.UDPAddr{IP: net.IPv4(127, 0, 0, byte(2+i)), Port: sp})
		if err != nil {
			ev.HarnessError("sender socket: %v", err)
			return nil
		}
		defer c.Close()
		senders = append(senders, c)
	}
	dest := net.UDPAddrFromAddrPort(listen)
	send := func(d dgram) { senders[d.Sender%3].WriteToUDP(d.Data, dest) }

	var shared uhppote.IUHPPOTE
	for ci, cy := range h.Cycles {
		u := shared
		if u == nil {
			u = hook.Real(hook.ClientCfg{HasListen: true, ListenIP: [4]byte{127, 0, 0, 1}, ListenPort: port, TimeoutMs: 30, Debug: h.Debug, Devices: h.Devices,
				BindIP: map[bool][4]byte{false: {127, 0, 0, 1}, true: {0, 0, 0, 0}}[bindPort != 0], BindPort: bindPort, HasBroadcast: true, BroadcastIP: [4]byte{127, 0, 6, 1}, BroadcastPort: 9})
			if h.OneClient {
				shared = u
			}
		}
		if h.BusyFirst == ci+1 {
			if holder, err := net.ListenUDP("udp4", dest); err == nil {
				frec := &recorder{}
				fq := make(chan os.Signal, 1)
				fdone := make(chan error, 1)
				go func() {
					defer func() {
						if p := recover(); p != nil {
							fdone <- fmt.Errorf("PANIC in Listen: %v", p)
						}
					}()
					fdone <- u.Listen(frec, fq)
				}()
				select {
				case err := <-fdone:
					if err != nil && strings.HasPrefix(err.Error(), "PANIC") {
						holder.Close()
						return rp.Failf("uhppote.Listen/panic", "cycle %d: Listen on an address that is in use: %v", ci, err)
					}
				case <-time.After(3 * time.Second):
					// still 'listening' on an address it cannot have bound: stop it
					close(fq)
					select {
					case <-fdone:
					case <-time.After(3 * time.Second):
						holder.Close()
						return rp.Failf("uhppote.Listen/does-not-stop", "cycle %d: Listen on an address that is in use neither failed nor stopped when signalled", ci)
					}
				}
				if c, _ := frec.counts(); c != 0 || frec.connected != 0 {
					holder.Close()
					return rp.Failf("uhppote.Listen/connected-callback", "cycle %d: a Listen that could not bind its address reported connected=%d events=%d", ci, frec.connected, c)
				}
				holder.Close()
			}
		}
		rec := &recorder{errReturn: h.ErrReturn}
		rec.onConnect = func() {
			send(cy.Hello)
			if h.WaitInConnected {
				for until := time.Now().Add(1500 * time.Millisecond); time.Now().Before(until); time.Sleep(200 * time.Microsecond) {
					if e, x := rec.counts(); e+x >= 1 {
						break
					}
				}
			}
		}
		q := make(chan os.Signal, 2)
		done := make(chan error, 1)
		go func() {
			defer func() {
				if p := recover(); p != nil {
					done <- fmt.Errorf("PANIC in Listen: %v", p)
				}
			}()
			done <- u.Listen(rec, q)
		}()

		var wantEvents []outcome
		wantErrors, either := 0, 0
		total := 0
		account := func(d dgram) {
			total++
			switch o := model(d.Data); o.kind {
			case "event":
				wantEvents = append(wantEvents, o)
			case "error":
				wantErrors++
			default:
				wantEvents = append(wantEvents, o)
				either++
			}
		}
		wait := func(what string) *rp.Fail {
			deadline := time.Now().Add(8 * time.Second)
			for {
				e, x := rec.counts()
				if e+x >= total {
					return nil
				}
				select {
				case err := <-done:
					return rp.Failf("uhppote.Listen/returned-early", "cycle %d: Listen returned (%v) before it was signalled", ci, err)
				default:
				}
				if time.Now().After(deadline) {
					return rp.Failf("uhppote.Listen/missing-callbacks", "cycle %d %s: %d datagrams sent, %d event and %d error callbacks after 8 s", ci, what, total, e, x)
				}
				time.Sleep(200 * time.Microsecond)
			}
		}
		account(cy.Hello)
		if f := wait("(datagram sent from inside the connected callback)"); f != nil {
			close(q)
			return f
		}
		for bi, b := range cy.Batches {
			if h.Calls && bi%2 == 1 {
				u.GetDevices()
				u.GetTime(405419896)
			}
			for _, d := range b {
				account(d)
				send(d)
			}
			if f := wait("(batch)"); f != nil {
				close(q)
				return f
			}
		}
		time.Sleep(2 * time.Millisecond) // anything delivered twice would show up now
		// stop
		stopSignal(q, cy.Stop)
		select {
		case err := <-done:
			if err != nil {
				return rp.Failf("uhppote.Listen/stop-error", "cycle %d: Listen returned %v after the stop signal", ci, err)
			}
		case <-time.After(5 * time.Second):
			return rp.Failf("uhppote.Listen/does-not-stop", "cycle %d: Listen has not returned 5 s after the stop signal", ci)
		}
		if c, err := net.ListenUDP("udp4", dest); err != nil {
			return rp.Failf("uhppote.Listen/address-still-bound", "cycle %d: the listen address cannot be bound right after Listen returned: %v", ci, err)
		} else {
			c.Close()
		}
		// judge
		rec.mu.Lock()
		events, errors, connected, early := rec.events, rec.errors, rec.connected, rec.early
		rec.mu.Unlock()
		if connected != 1 {
			return rp.Failf("uhppote.Listen/connected-callback", "cycle %d: %d connected callbacks, want exactly 1", ci, connected)
		}
		// an error that was handed to the application says the same thing later (it does not refer to the receive buffer)
		rec.mu.Lock()
		for k, e := range rec.errObjs {
			if now := e.Error(); now != rec.errors[k] {
				rec.mu.Unlock()
				return rp.Failf("uhppote.Listen/error-changed-later", "cycle %d: error callback %d said %q when it was delivered and says %q after later datagrams", ci, k, rec.errors[k], now)
			}
		}
		rec.mu.Unlock()
		if early != 0 {
			return rp.Failf("uhppote.Listen/callback-before-connected", "cycle %d: %d callbacks before the connected callback", ci, early)
		}
		// match events in order; 'either' outcomes may be absent (then they are errors)
		ei := 0
		missingEither := 0
		for _, w := range wantEvents {
			matched := false
			if ei < len(events) {
				got := api.StatusRec(*events[ei].status)
				if same(w, got) {
					matched = true
				}
			}
			if matched {
				ei++
				continue
			}
			if w.kind == "either" {
				missingEither++
				continue
			}
			gotText := "<none>"
			if ei < len(events) {
				gotText = events[ei].snap
			}
			return rp.Failf("uhppote.Listen/wrong-event", "cycle %d: event callback %d is\n  %s\nthe next valid datagram decodes to\n  %s\n(%d event callbacks for %d valid datagrams)", ci, ei, gotText, w.rec.String(), len(events), len(wantEvents)-either)
		}
		if ei != len(events) {
			return rp.Failf("uhppote.Listen/extra-event", "cycle %d: %d event callbacks, only %d valid datagrams were sent; first extra: %s", ci, len(events), ei, events[ei].snap)
		}
		if len(errors) != wantErrors+missingEither {
			return rp.Failf("uhppote.Listen/error-count", "cycle %d: %d error callbacks, %d datagrams were not valid events (errors: %.300v)", ci, len(errors), wantErrors+missingEither, errors)
		}
		for i, e := range events {
			if now := api.StatusRec(*e.status).String(); now != e.snap {
				return rp.Failf("uhppote.Listen/status-changed-after-callback", "cycle %d: status %d changed after it was delivered:\n  at callback: %s\n  at the end:  %s", ci, i, e.snap, now)
			}
		}
	}
	return nil
}

func same(w outcome, got spec.Rec) bool {
	for k, v := range w.rec {
		if w.skip[k] {
			continue
		}
		if w.kind == "either" && k == "event.timestamp" {
			if got[k] != "" {
				return false
			}
			continue
		}
		if got[k] != v {
			return false
		}
	}
	return true
}

func check(h history) *rp.Fail {
	nt := false
	total := 0
	for _, cy := range h.Cycles {
		for _, b := range cy.Batches {
			v, m := 0, 0
			for _, d := range b {
				total++
				if model(d.Data).kind == "event" {
					v++
				} else {
					m++
				}
			}
			if v > 0 && m > 0 {
				nt = true
			}
		}
	}
	class := fmt.Sprintf("history/%d-cycles", len(h.Cycles))
	ev.Case(class, nt, fmt.Sprintf("%v", h))
	if h.OneClient && len(h.Cycles) > 1 {
		ev.Class("history/start-stop-cycles-on-one-client", 1)
	}
	if h.Calls {
		ev.Class("history/requests-while-listening", 1)
	}
	if h.WaitInConnected {
		ev.Class("history/connected-callback-waits-for-its-datagram", 1)
	}
	if h.ErrReturn != 0 {
		ev.Class("history/error-callback-returns-false", 1)
	}
	if h.BindPort {
		ev.Class("history/sender-on-the-client-bind-port", 1)
	}
	if h.BusyFirst > 0 && h.BusyFirst <= len(h.Cycles) {
		ev.Class("history/listen-attempt-on-a-busy-address-first", 1)
	}
	ev.Class("datagrams-sent", int64(total))
	if ev.WantSample(class) {
		var kinds []string
		for _, cy := range h.Cycles {
			for _, b := range cy.Batches {
				for _, d := range b {
					kinds = append(kinds, model(d.Data).kind)
				}
			}
			kinds = append(kinds, "|stop|")
		}
		ev.Sample(class, kinds)
	}
	f := run(h)
	if f != nil {
		if f2 := run(h); f2 == nil {
			ev.Inconclusive(1)
			return nil
		}
	}
	return f
}

func genDatagram(t *rapid.T, pool []uint32) dgram {
	d := dgram{Sender: rapid.IntRange(0, 2).Draw(t, "sender")}
	som := rapid.SampledFrom([]byte{0x17, 0x17, 0x19}).Draw(t, "som")
	serial := gen.Serial(t)
	if len(pool) > 0 && rapid.Bool().Draw(t, "known.controller") {
		serial = pool[rapid.IntRange(0, len(pool)-1).Draw(t, "known.which")]
	}
	b := gen.Payload(t, spec.EventLayout, som, serial, 0, rapid.Bool().Draw(t, "noise"))
	if rapid.IntRange(0, 4).Draw(t, "noevent") == 0 {
		spec.PutLE32(b[8:], 0)
	}
	switch rapid.IntRange(0, 13).Draw(t, "class") {
	case 0:
		b = b[:rapid.IntRange(0, 63).Draw(t, "short")]
	case 1:
		b = append(b, make([]byte, rapid.SampledFrom([]int{1, 64, 960, 1984, 2500}).Draw(t, "long"))...)
	case 2:
		spec.PutLE32(b[4:], 0)
	case 3:
		b[1] = rapid.SampledFrom([]byte{0x00, 0x21, 0x94, 0xb0, 0xff}).Draw(t, "code")
	case 4:
		b[0] = rapid.SampledFrom([]byte{0x00, 0x16, 0x18, 0x1a, 0xff}).Draw(t, "id")
	case 5, 6:
		b = gen.Payload(t, spec.EventLayout, som, serial, rapid.IntRange(1, 2).Draw(t, "nbad"), false)
	}
	d.Data = b
	return d
}

// shiftEvent returns a copy of a well-formed event whose system date/time and event timestamp are moved by delta (false if the
// datagram is not a 64-byte event with decimal date/time fields in 2001..2067).
func shiftEvent(prev dgram, delta time.Duration) (dgram, bool) {
	b := prev.Data
	if len(b) != 64 || b[1] != 0x20 {
		return dgram{}, false
	}
	dec := func(x byte) (int, bool) { return int(x>>4)*10 + int(x&0x0f), x>>4 <= 9 && x&0x0f <= 9 }
	var v [6]int
	for i, off := range []int{51, 52, 53, 37, 38, 39} {
		x, ok := dec(b[off])
		if !ok {
			return dgram{}, false
		}
		v[i] = x
	}
	if v[0] < 1 || v[0] > 67 || v[1] < 1 || v[1] > 12 || v[2] < 1 || v[2] > 28 || v[3] > 23 || v[4] > 59 || v[5] > 59 {
		return dgram{}, false
	}
	at := time.Date(2000+v[0], time.Month(v[1]), v[2], v[3], v[4], v[5], 0, time.UTC).Add(delta)
	if at.Year() < 2001 || at.Year() > 2067 {
		return dgram{}, false
	}
	out := append([]byte(nil), b...)
	enc := func(x int) byte { return byte(x/10<<4 | x%10) }
	out[51], out[52], out[53] = enc(at.Year()%100), enc(int(at.Month())), enc(at.Day())
	out[37], out[38], out[39] = enc(at.Hour()), enc(at.Minute()), enc(at.Second())
	spec.PutLE32(out[40:], spec.LE32(b[40:])+1)
	return dgram{Sender: prev.Sender, Data: out}, true
}

func genHistory(t *rapid.T) history {
	var h history
	h.Debug = gen.Debug(t, "debug")
	h.OneClient = rapid.Bool().Draw(t, "one.client")
	h.Calls = rapid.IntRange(0, 3).Draw(t, "calls") == 0
	if rapid.IntRange(0, 3).Draw(t, "busy") == 0 {
		h.BusyFirst = rapid.IntRange(1, 2).Draw(t, "busy.before")
	}
	h.WaitInConnected = rapid.Bool().Draw(t, "wait.in.connected")
	h.ErrReturn = rapid.SampledFrom([]int{0, 0, 1, 2}).Draw(t, "err.return")
	h.BindPort = rapid.IntRange(0, 2).Draw(t, "bind.port") == 0 && !h.Calls
	var pool []uint32
	for i := rapid.IntRange(0, 3).Draw(t, "configured"); i > 0; i-- {
		s := gen.Serial(t)
		pool = append(pool, s)
		d := hook.DeviceCfg{Name: fmt.Sprintf("c%d", i), Serial: s, TZ: gen.DeviceTZ(t, "tz"), ViaNew: rapid.Bool().Draw(t, "via.new"), Protocol: "udp"}
		if rapid.Bool().Draw(t, "addr") {
			d.HasAddr, d.IP, d.Port = true, [4]byte{127, 0, 0, byte(2 + i)}, 60000
		}
		h.Devices = append(h.Devices, d)
	}
	n := rapid.IntRange(1, 3).Draw(t, "cycles")
	for i := 0; i < n; i++ {
		cy := cycle{Hello: genDatagram(t, pool), Stop: rapid.SampledFrom([]string{"", "", "INT", "TERM", "HUP", "USR1", "QUIT", "HUP+TERM", "TERM+INT", "HUP+HUP", "#23", "#28", "#17", "#13", "#18", "#0"}).Draw(t, "stop")}
		if rapid.IntRange(0, 5).Draw(t, "stop.any.signal") == 0 {
			cy.Stop = fmt.Sprintf("#%d", rapid.IntRange(1, 64).Draw(t, "stop.signal.number"))
		}
		nb := rapid.IntRange(1, 4).Draw(t, "batches")
		for j := 0; j < nb; j++ {
			var b []dgram
			nd := rapid.IntRange(1, 40).Draw(t, "datagrams")
			for k := 0; k < nd; k++ {
				if k > 0 && rapid.IntRange(0, 3).Draw(t, "related") == 0 {
					// the same controller again, its clock a calendar step earlier or later than in its previous event (a clock that
					// was corrected, events replayed from the controller's store): every event is decoded on its own
					delta := rapid.SampledFrom([]time.Duration{time.Second, time.Minute, time.Hour, 24*time.Hour - 90*time.Second, 24*time.Hour - time.Second, 24 * time.Hour, 24*time.Hour + 30*time.Second,
						23*time.Hour + 30*time.Minute, 48 * time.Hour, 7 * 24 * time.Hour, 31 * 24 * time.Hour, 365 * 24 * time.Hour, 0}).Draw(t, "related.delta")
					if rapid.Bool().Draw(t, "related.back") {
						delta = -delta
					}
					if d, ok := shiftEvent(b[k-1], delta); ok {
						b = append(b, d)
						continue
					}
				}
				b = append(b, genDatagram(t, pool))
			}
			cy.Batches = append(cy.Batches, b)
		}
		h.Cycles = append(h.Cycles, cy)
	}
	return h
}

// slow consumer: the application's event callback is still busy with event 1 when event 2 arrives and the stop signal is
// given; the callback returns `hold` later. The library must neither crash nor deliver anything twice or out of order,
// Listen must return nil once the callback is done, and the address must be free again.
type slowCase struct {
	HoldMs int `json:"hold_ms"`
	Extra  int `json:"extra"` // datagrams sent while the callback is blocked
}

type slowRec struct {
	mu      sync.Mutex
	indices []uint32
	clocks  []string // "<event index>=<system date and time>" as delivered
	release chan struct{}
	entered chan struct{}
	first   bool
}

func (r *slowRec) OnConnected() {}
func (r *slowRec) OnEvent(s *types.Status) {
	r.mu.Lock()
	r.indices = append(r.indices, s.Event.Index)
	r.clocks = append(r.clocks, fmt.Sprintf("%d=%s", s.Event.Index, api.DateTimeText(s.SystemDateTime)))
	block := !r.first
	r.first = true
	r.mu.Unlock()
	if block {
		close(r.entered)
		<-r.release
	}
}
func (r *slowRec) OnError(error) bool { return true }

func checkSlow(c slowCase) *rp.Fail {
	ev.Case("slow-consumer-at-stop", true, fmt.Sprint(c))
	f := runSlow(c, 1)
	if f != nil && strings.HasSuffix(f.Fingerprint, "/received-event-dropped-at-stop") {
		// the only timing assumption: the read loop has picked up the second datagram within the pause - give it 8x as long
		if f2 := runSlow(c, 8); f2 == nil {
			ev.Inconclusive(1)
			return nil
		}
	}
	return f
}

func runSlow(c slowCase, scale int) *rp.Fail {
	port, err := farm.FreePort([4]byte{127, 0, 0, 1})
	if err != nil {
		return nil
	}
	dest := &net.UDPAddr{IP: net.IPv4(127, 0, 0, 1), Port: int(port)}
	sender, err := net.DialUDP("udp4", nil, dest)
	if err != nil {
		return nil
	}
	defer sender.Close()
	u := hook.Real(hook.ClientCfg{HasListen: true, ListenIP: [4]byte{127, 0, 0, 1}, ListenPort: port})
	rec := &slowRec{release: make(chan struct{}), entered: make(chan struct{})}
	q := make(chan os.Signal)
	done := make(chan error, 1)
	go func() { done <- u.Listen(rec, q) }()
	event := func(index uint32) []byte {
		b := make([]byte, 64)
		spec.Header(b, 0x17, 0x20, 405419896)
		spec.PutLE32(b[8:], index)
		b[12] = 1
		// every event carries a controller clock of its own: 2024-03-dd 08:mm:ss derived from its index
		bcd := func(x uint32) byte { return byte(x/10<<4 | x%10) }
		b[51], b[52], b[53] = 0x24, 0x03, bcd(1+index%28)
		b[37], b[38], b[39] = 0x08, bcd(index%60), bcd(index%60)
		return b
	}
	clockOf := func(index uint32) string {
		return fmt.Sprintf("%d=2024-03-%02d 08:%02d:%02d", index, 1+index%28, index%60, index%60)
	}
	// event 1 (retry until the listener is bound)
	deadline := time.Now().Add(5 * time.Second)
	for entered := false; !entered; {
		sender.Write(event(1))
		select {
		case <-rec.entered:
			entered = true
		case <-time.After(20 * time.Millisecond):
			if time.Now().After(deadline) {
				close(q)
				return rp.Failf("uhppote.Listen/missing-callbacks", "no event callback within 5 s")
			}
		}
	}
	for i := 0; i < c.Extra; i++ {
		sender.Write(event(uint32(2 + i)))
	}
	time.Sleep(time.Duration(25*scale) * time.Millisecond) // the read loop has picked up the next datagram by now
	close(q)
	time.Sleep(time.Duration(c.HoldMs) * time.Millisecond)
	close(rec.release)
	select {
	case err := <-done:
		if err != nil {
			return rp.Failf("uhppote.Listen/stop-error", "Listen returned %v after the stop signal (slow consumer)", err)
		}
	case <-time.After(6 * time.Second):
		return rp.Failf("uhppote.Listen/does-not-stop", "Listen has not returned 6 s after the slow callback finished")
	}
	time.Sleep(20 * time.Millisecond) // a late panic in a library goroutine would kill the process here
	if l, err := net.ListenUDP("udp4", dest); err != nil {
		return rp.Failf("uhppote.Listen/address-still-bound", "listen address not free after Listen returned (slow consumer): %v", err)
	} else {
		l.Close()
	}
	rec.mu.Lock()
	got := append([]uint32(nil), rec.indices...)
	clocks := append([]string(nil), rec.clocks...)
	rec.mu.Unlock()
	// every delivered status is the decoding of ITS datagram: the controller clock that came with that event index
	for i, ix := range got {
		if i < len(clocks) && clocks[i] != clockOf(ix) {
			return rp.Failf("uhppote.Listen/slow-consumer/wrong-fields", "event %d was delivered with system date and time %q; its datagram says %q (%d events were queued behind a busy callback)", ix, clocks[i], clockOf(ix), c.Extra)
		}
	}
	// delivered events: event 1 possibly several times (it was re-sent until the listener was up), then a prefix-ordered,
	// duplicate-free subsequence of 2..n
	last := uint32(1)
	for _, ix := range got {
		if ix == 1 && last == 1 {
			continue
		}
		if ix <= last {
			return rp.Failf("uhppote.Listen/order-or-duplicate", "events delivered around a stop with a slow consumer: %v (sent 1, then 2..%d in order)", got, 1+c.Extra)
		}
		last = ix
	}
	// the datagram that the listener had already received when it was signalled (event 2 - it was waiting behind the busy
	// callback) is a received well-formed event: it is handed to the callback, not dropped
	if c.Extra >= 1 {
		seen := false
		for _, ix := range got {
			if ix == 2 {
				seen = true
			}
		}
		if !seen {
			return rp.Failf("uhppote.Listen/received-event-dropped-at-stop", "event 2 had been received (it was waiting behind the busy callback for event 1) when the listener was signalled; it was never delivered: callbacks %v", got)
		}
	}
	return nil
}

func props() []rp.Prop {
	slowSweep := func(yield func(slowCase) bool) {
		cases := []slowCase{{HoldMs: 30, Extra: 1}, {HoldMs: 120, Extra: 3}, {HoldMs: 0, Extra: 2}, {HoldMs: 250, Extra: 40}, {HoldMs: 60, Extra: 300}}
		if ev.Thorough() {
			// one long hold per shard: longer than any grace period a shutdown path might use
			cases = append(cases, slowCase{HoldMs: 3200, Extra: 2}, slowCase{HoldMs: 700, Extra: 8})
		} else if ev.Shard() == 0 {
			cases = append(cases, slowCase{HoldMs: 3200, Extra: 2})
		}
		// a hold longer than every time constant in the library's source (harvested: a queue limit, a watchdog, a keep-alive would
		// be one of them) - 1.5 s more than the largest, at most 40 s in the quick tier and 11 min in the thorough one
		if ev.Shard() == ev.Shards()-1 {
			limit, longest := 40*time.Second, 1*time.Second
			if ev.Thorough() {
				limit = 11 * time.Minute
			}
			for _, x := range gen.DictDurations() {
				if x > longest && x <= limit {
					longest = x
				}
			}
			cases = append(cases, slowCase{HoldMs: int((longest + 1500*time.Millisecond) / time.Millisecond), Extra: 2})
		}
		for _, c := range cases {
			if !yield(c) {
				return
			}
		}
	}
	return []rp.Prop{
		rp.P[history]{Name: "listener", Checks: ev.Pick(400, 60000) / ev.Shards(), Gen: genHistory, Check: check},
		rp.P[slowCase]{Name: "slow-consumer", Sweep: slowSweep, Check: checkSlow},
		rp.P[overlapCase]{Name: "running-listener", Sweep: sweepOverlap, Check: checkOverlap},
	}
}

func TestC10(t *testing.T)    { rp.RunAll(t, props()...) }
func TestReplay(t *testing.T) { rp.ReplayAll(t, props()...) }
