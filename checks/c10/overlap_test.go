package c10

import (
	"fmt"
	"github.com/uhppoted/uhppote-core/uhppote"
	"net"
	"os"
	"os/signal"
	"strings"
	"sync"
	"syscall"
	"time"

	"github.com/uhppoted/uhppote-core/types"
	"verif/harness/ev"
	"verif/harness/farm"
	"verif/harness/hook"
	"verif/harness/rp"
	"verif/harness/spec"
)

// Two usage patterns around a RUNNING listener, both on one client instance:
//
// overlap: while Listen is running, Listen is called again on the same client (an application restarting its listener
// without having stopped the old one; the call fails with 'address in use' or whatever - its result is not judged). The
// running listener is not disturbed: the events that arrive afterwards are delivered once and in order, malformed
// datagrams are reported, and it stops when signalled.
//
// stop-from-callback: the event callback itself gives the stop signal and waits (bounded, for the harness's sake) for Listen
// to return - the listener stops when signalled, whoever signals it; a Listen that waits for the callback that waits for it
// never stops.
type overlapCase struct {
	Kind      string `json:"kind"`
	Overlaps  int    `json:"overlapping_calls,omitempty"`
	Events    int    `json:"events"`
	Malformed int    `json:"malformed,omitempty"`
	Debug     bool   `json:"debug,omitempty"`
}

type orderRec struct {
	mu      sync.Mutex
	indices []uint32
	errors  int
	onEvent func(ix uint32)
}

func (r *orderRec) OnConnected() {}
func (r *orderRec) OnEvent(s *types.Status) {
	r.mu.Lock()
	r.indices = append(r.indices, s.Event.Index)
	f := r.onEvent
	r.mu.Unlock()
	if f != nil {
		f(s.Event.Index)
	}
}
func (r *orderRec) OnError(error) bool {
	r.mu.Lock()
	r.errors++
	r.mu.Unlock()
	return true
}
func (r *orderRec) snapshot() ([]uint32, int) {
	r.mu.Lock()
	defer r.mu.Unlock()
	return append([]uint32(nil), r.indices...), r.errors
}

func eventDatagram(index uint32) []byte {
	b := make([]byte, 64)
	spec.Header(b, 0x17, 0x20, 405419896)
	spec.PutLE32(b[8:], index)
	b[12] = 1
	return b
}

func checkOverlap(c overlapCase) *rp.Fail {
	ev.Case("running-listener/"+c.Kind, true, fmt.Sprintf("%+v", c))
	f := runOverlap(c)
	if f != nil {
		// the waits are generous but finite: a failure has to repeat
		if f2 := runOverlap(c); f2 == nil {
			ev.Inconclusive(1)
			return nil
		} else {
			f = f2
		}
	}
	return f
}

func runOverlap(c overlapCase) *rp.Fail {
	if c.Kind == "two-sites" {
		return checkTwoSites(c)
	}
	if c.Kind == "process-signal" {
		return checkProcessSignal(c)
	}
	if c.Kind == "stop-before-listen" {
		return checkStopBefore(c)
	}
	port, err := farm.FreePort([4]byte{127, 0, 0, 1})
	if err != nil {
		return nil
	}
	dest := &net.UDPAddr{IP: net.IPv4(127, 0, 0, 1), Port: int(port)}
	sender, err := net.DialUDP("udp4", nil, dest)
	if err != nil {
		return nil
	}
	defer sender.Close()
	u := hook.Real(hook.ClientCfg{HasListen: true, ListenIP: [4]byte{127, 0, 0, 1}, ListenPort: port, Debug: c.Debug})
	rec := &orderRec{}
	q := make(chan os.Signal, 1)
	done := make(chan error, 1)
	go func() { done <- u.Listen(rec, q) }()
	// event 1 (retry until the listener is bound)
	for deadline := time.Now().Add(5 * time.Second); ; time.Sleep(10 * time.Millisecond) {
		sender.Write(eventDatagram(1))
		time.Sleep(5 * time.Millisecond)
		if got, _ := rec.snapshot(); len(got) > 0 {
			break
		}
		if time.Now().After(deadline) {
			q <- os.Interrupt
			return rp.Failf("uhppote.Listen/missing-callbacks", "no event callback within 5 s")
		}
	}
	waitFor := func(n int, errors int) ([]uint32, int) {
		for deadline := time.Now().Add(3 * time.Second); ; time.Sleep(2 * time.Millisecond) {
			got, errs := rec.snapshot()
			k := 0
			for _, ix := range got {
				if ix > 1 {
					k++
				}
			}
			if (k >= n && errs >= errors) || time.Now().After(deadline) {
				return got, errs
			}
		}
	}
	inOrder := func(got []uint32, n int) *rp.Fail {
		want := uint32(2)
		for _, ix := range got {
			if ix == 1 && want == 2 {
				continue
			}
			if ix != want {
				return rp.Failf("uhppote.Listen/"+c.Kind+"/events-lost-or-reordered", "running listener (%+v): events 2..%d were sent in order after event 1; callbacks: %v", c, n+1, got)
			}
			want++
		}
		if int(want)-2 != n {
			return rp.Failf("uhppote.Listen/"+c.Kind+"/events-lost-or-reordered", "running listener (%+v): events 2..%d were sent in order after event 1; callbacks: %v", c, n+1, got)
		}
		return nil
	}
	switch c.Kind {
	case "overlap":
		for i := 0; i < c.Overlaps; i++ {
			q2 := make(chan os.Signal, 1)
			second := make(chan struct{})
			go func() {
				defer close(second)
				defer func() { recover() }()
				u.Listen(&orderRec{}, q2)
			}()
			select {
			case <-second:
			case <-time.After(300 * time.Millisecond):
				// (a second listener that did start - address reuse - is stopped again before the events are sent)
				q2 <- os.Interrupt
				select {
				case <-second:
				case <-time.After(3 * time.Second):
				}
			}
		}
		_, errs0 := rec.snapshot()
		for i := 0; i < c.Events; i++ {
			sender.Write(eventDatagram(uint32(2 + i)))
			if i < c.Malformed {
				sender.Write([]byte{0x17, 0x20, 1, 2, 3})
			}
			time.Sleep(time.Millisecond)
		}
		got, errs := waitFor(c.Events, errs0+c.Malformed)
		if f := inOrder(got, c.Events); f != nil {
			return f
		}
		if errs-errs0 != c.Malformed {
			return rp.Failf("uhppote.Listen/overlap/error-callbacks", "running listener (%+v): %d malformed datagrams sent after the overlapping Listen call, %d error callbacks", c, c.Malformed, errs-errs0)
		}
		q <- os.Interrupt
	case "restart-while-callback-busy":
		// the first listener is stopped while one of its callbacks is still busy (a slow consumer); the application starts its
		// next listener on the same client at once. The old Listen returns when its callback is done, the new one delivers.
		release := make(chan struct{})
		busy := make(chan struct{}, 1)
		rec.mu.Lock()
		rec.onEvent = func(ix uint32) {
			if ix == 2 {
				select {
				case busy <- struct{}{}:
				default:
				}
				<-release
			}
		}
		rec.mu.Unlock()
		sender.Write(eventDatagram(2))
		for i := 0; i < c.Events; i++ {
			sender.Write(eventDatagram(uint32(3 + i))) // (pending behind the busy callback)
		}
		select {
		case <-busy:
		case <-time.After(3 * time.Second):
			close(release)
			q <- os.Interrupt
			return rp.Failf("uhppote.Listen/missing-callbacks", "event 2 was not delivered within 3 s")
		}
		q <- os.Interrupt
		rec2 := &orderRec{}
		q2 := make(chan os.Signal, 1)
		done2 := make(chan error, 1)
		started := false
		for deadline := time.Now().Add(4 * time.Second); !started && time.Now().Before(deadline); {
			ch := make(chan error, 1)
			go func() {
				defer func() {
					if r := recover(); r != nil {
						ch <- fmt.Errorf("PANIC: %v", r)
					}
				}()
				ch <- u.Listen(rec2, q2)
			}()
			select {
			case err := <-ch: // (address still in use: the old socket is not closed yet - try again)
				if err != nil && strings.HasPrefix(err.Error(), "PANIC") {
					close(release)
					return rp.Failf("uhppote.Listen/panic", "second Listen: %v", err)
				}
				time.Sleep(5 * time.Millisecond)
			case <-time.After(150 * time.Millisecond):
				started = true
				go func() { done2 <- <-ch }()
			}
		}
		if !started {
			close(release)
			<-done
			ev.Excluded("the second listener could not bind while the first callback was busy", 1)
			return nil
		}
		// the new listener works
		for deadline := time.Now().Add(3 * time.Second); ; time.Sleep(10 * time.Millisecond) {
			sender.Write(eventDatagram(100))
			if got, _ := rec2.snapshot(); len(got) > 0 {
				break
			}
			if time.Now().After(deadline) {
				close(release)
				q2 <- os.Interrupt
				return rp.Failf("uhppote.Listen/restart-while-callback-busy/new-listener-deaf", "the listener that was started while the old listener's callback was still busy received nothing within 3 s")
			}
		}
		close(release)
		select {
		case err := <-done:
			if err != nil {
				q2 <- os.Interrupt
				return rp.Failf("uhppote.Listen/restart-while-callback-busy/stop-error", "the first Listen returned %v", err)
			}
		case <-time.After(6 * time.Second):
			q2 <- os.Interrupt
			return rp.Failf("uhppote.Listen/restart-while-callback-busy/does-not-stop", "the first Listen has not returned 6 s after its busy callback finished (it had been signalled to stop before the next listener was started on the same client)")
		}
		q2 <- os.Interrupt
		select {
		case err := <-done2:
			if err != nil {
				return rp.Failf("uhppote.Listen/restart-while-callback-busy/stop-error", "the second Listen returned %v", err)
			}
		case <-time.After(6 * time.Second):
			return rp.Failf("uhppote.Listen/restart-while-callback-busy/does-not-stop", "the second Listen has not returned 6 s after its stop signal")
		}
		if l, err := net.ListenUDP("udp4", dest); err != nil {
			return rp.Failf("uhppote.Listen/restart-while-callback-busy/address-still-bound", "listen address not free after both listeners returned: %v", err)
		} else {
			l.Close()
		}
		return nil
	case "stop-from-callback":
		returned := make(chan struct{})
		rec.mu.Lock()
		rec.onEvent = func(ix uint32) {
			if int(ix) == 1+c.Events {
				// (malformed datagrams arrive while this callback is busy: they go to the error callback, and do not keep the
				// listener from stopping)
				for k := 0; k < c.Malformed; k++ {
					sender.Write([]byte{0x17, 0x20, byte(k), 3, 4, 5, 6, 7, 8, 9})
				}
				if c.Malformed > 0 {
					time.Sleep(30 * time.Millisecond)
				}
				q <- os.Interrupt
				select {
				case <-returned:
				case <-time.After(8 * time.Second):
				}
			}
		}
		rec.mu.Unlock()
		defer close(returned)
		for i := 0; i < c.Events; i++ {
			sender.Write(eventDatagram(uint32(2 + i)))
			time.Sleep(time.Millisecond)
		}
		got, _ := waitFor(c.Events, 0)
		if f := inOrder(got, c.Events); f != nil {
			select {
			case q <- os.Interrupt:
			default:
			}
			return f
		}
	}
	select {
	case err := <-done:
		if err != nil {
			return rp.Failf("uhppote.Listen/"+c.Kind+"/stop-error", "Listen returned %v after the stop signal (%+v)", err, c)
		}
	case <-time.After(6 * time.Second):
		return rp.Failf("uhppote.Listen/"+c.Kind+"/does-not-stop", "Listen has not returned 6 s after the stop signal (%+v)", c)
	}
	if l, err := net.ListenUDP("udp4", dest); err != nil {
		return rp.Failf("uhppote.Listen/"+c.Kind+"/address-still-bound", "listen address not free after Listen returned (%+v): %v", c, err)
	} else {
		l.Close()
	}
	return nil
}

func sweepOverlap(yield func(overlapCase) bool) {
	cases := []overlapCase{
		{Kind: "overlap", Overlaps: 1, Events: 3, Malformed: 1},
		{Kind: "overlap", Overlaps: 2, Events: 5, Malformed: 2, Debug: true},
		{Kind: "overlap", Overlaps: 0, Events: 4, Malformed: 4},
		{Kind: "stop-from-callback", Events: 1},
		{Kind: "restart-while-callback-busy", Events: 1},
		{Kind: "process-signal", Events: 2},
		{Kind: "two-sites", Events: 3},
		{Kind: "two-sites", Events: 5, Debug: true},
		{Kind: "two-sites", Events: 3, Overlaps: 1},
		{Kind: "two-sites", Events: 4, Overlaps: 1, Malformed: 1},
		{Kind: "restart-while-callback-busy", Events: 0, Debug: true},
		{Kind: "stop-from-callback", Events: 4, Debug: true},
		{Kind: "stop-before-listen", Events: 1},
		{Kind: "stop-before-listen", Events: 2, Debug: true},
		{Kind: "stop-from-callback", Events: 2, Malformed: 1},
		{Kind: "stop-from-callback", Events: 3, Malformed: 5, Debug: true},
	}
	if ev.Thorough() {
		for n := 1; n <= 6; n++ {
			cases = append(cases, overlapCase{Kind: "overlap", Overlaps: n, Events: 2 * n, Malformed: n % 3}, overlapCase{Kind: "stop-from-callback", Events: n})
		}
	}
	for i, c := range cases {
		if ev.Mine(i) && !yield(c) {
			return
		}
	}
}

// two-sites: two clients of one process listen at the same time on the same port number of two different local addresses (two
// sites, each with an address of its own on this host - 127.0.0.2 and 127.0.0.3 here, which are local like every 127.x.y.z);
// each gets exactly the events sent to its address, in order, both stop when signalled and both addresses are free again.
func checkTwoSites(c overlapCase) *rp.Fail {
	ips := [][4]byte{{127, 0, 0, 2}, {127, 0, 0, 3}}
	if c.Overlaps == 1 {
		// one of the two listens on the broadcast address of the (loopback) subnet - where controllers that are told to send their
		// events 'to everybody' send them: it hears what is sent there, not what is sent to the other listener's address
		ips = [][4]byte{{127, 255, 255, 255}, {127, 0, 0, 2}}
		if c.Malformed == 1 {
			ips[0], ips[1] = ips[1], ips[0]
		}
	}
	var port uint16
	for try := 0; try < 20 && port == 0; try++ {
		p, err := farm.FreePort(ips[0])
		if err != nil {
			return nil
		}
		if q, err := farm.FreePortAt(ips[1], p); err == nil && q == p {
			port = p
		}
	}
	if port == 0 {
		ev.Excluded("no port free on both addresses", 1)
		return nil
	}
	type site struct {
		rec    *orderRec
		q      chan os.Signal
		done   chan error
		sender *net.UDPConn
		dest   *net.UDPAddr
	}
	var sites []*site
	for _, ip := range ips {
		dest := &net.UDPAddr{IP: net.IP(ip[:]), Port: int(port)}
		sender, err := net.DialUDP("udp4", nil, dest)
		if err != nil {
			return nil
		}
		defer sender.Close()
		u := hook.Real(hook.ClientCfg{HasListen: true, ListenIP: ip, ListenPort: port, Debug: c.Debug})
		s := &site{rec: &orderRec{}, q: make(chan os.Signal, 1), done: make(chan error, 1), sender: sender, dest: dest}
		go func() {
			defer func() {
				if r := recover(); r != nil {
					s.done <- fmt.Errorf("PANIC: %v", r)
				}
			}()
			s.done <- u.Listen(s.rec, s.q)
		}()
		sites = append(sites, s)
	}
	stopAll := func() {
		for _, s := range sites {
			select {
			case s.q <- os.Interrupt:
			default:
			}
		}
	}
	// both listeners come up (event 1 is re-sent until it has been delivered)
	for k, s := range sites {
		for deadline := time.Now().Add(5 * time.Second); ; time.Sleep(10 * time.Millisecond) {
			select {
			case err := <-s.done:
				stopAll()
				return rp.Failf("uhppote.Listen/two-sites/did-not-start", "the listener on %v returned %v while another client of the process was listening on %v (the addresses differ, the port number is the same)", s.dest, err, sites[1-k].dest)
			default:
			}
			s.sender.Write(eventDatagram(1))
			time.Sleep(5 * time.Millisecond)
			if got, _ := s.rec.snapshot(); len(got) > 0 {
				break
			}
			if time.Now().After(deadline) {
				stopAll()
				return rp.Failf("uhppote.Listen/two-sites/missing-callbacks", "the listener on %v delivered nothing within 5 s", s.dest)
			}
		}
	}
	for i := 0; i < c.Events; i++ {
		for k, s := range sites {
			s.sender.Write(eventDatagram(uint32(10*(k+1) + i)))
		}
		time.Sleep(time.Millisecond)
	}
	for k, s := range sites {
		var got []uint32
		for deadline := time.Now().Add(3 * time.Second); ; time.Sleep(2 * time.Millisecond) {
			got, _ = s.rec.snapshot()
			n := 0
			for _, ix := range got {
				if ix != 1 {
					n++
				}
			}
			if n >= c.Events || time.Now().After(deadline) {
				break
			}
		}
		want := uint32(10 * (k + 1))
		for _, ix := range got {
			if ix == 1 {
				continue
			}
			if ix != want {
				stopAll()
				return rp.Failf("uhppote.Listen/two-sites/events-lost-or-astray", "the listener on %v was sent events %d..%d (and event 1 until it was up); callbacks: %v", s.dest, 10*(k+1), 10*(k+1)+c.Events-1, got)
			}
			want++
		}
		if int(want)-10*(k+1) != c.Events {
			stopAll()
			return rp.Failf("uhppote.Listen/two-sites/events-lost-or-astray", "the listener on %v was sent events %d..%d (and event 1 until it was up); callbacks: %v", s.dest, 10*(k+1), 10*(k+1)+c.Events-1, got)
		}
	}
	stopAll()
	for _, s := range sites {
		select {
		case err := <-s.done:
			if err != nil {
				return rp.Failf("uhppote.Listen/two-sites/stop-error", "the listener on %v returned %v after the stop signal", s.dest, err)
			}
		case <-time.After(6 * time.Second):
			return rp.Failf("uhppote.Listen/two-sites/does-not-stop", "the listener on %v has not returned 6 s after the stop signal", s.dest)
		}
		if l, err := net.ListenUDP("udp4", s.dest); err != nil {
			return rp.Failf("uhppote.Listen/two-sites/address-still-bound", "%v is not free after Listen returned: %v", s.dest, err)
		} else {
			l.Close()
		}
	}
	return nil
}

// valueListener is a Listener whose dynamic type is a struct VALUE (value receivers, channel fields) - not a pointer.
type valueListener struct {
	events chan uint32
	errors chan struct{}
	up     chan struct{}
}

func (l valueListener) OnConnected() {
	select {
	case l.up <- struct{}{}:
	default:
	}
}
func (l valueListener) OnEvent(s *types.Status) { l.events <- s.Event.Index }
func (l valueListener) OnError(error) bool {
	select {
	case l.errors <- struct{}{}:
	default:
	}
	return true
}

// funcListener: the Listener interface implemented on a function type.
type funcListener func(ix uint32)

func (f funcListener) OnConnected()            {}
func (f funcListener) OnEvent(s *types.Status) { f(s.Event.Index) }
func (f funcListener) OnError(error) bool      { return true }

// process-signal: the application registers ONE channel with signal.Notify and uses it for every Listen cycle; the listener is
// stopped by a real signal sent to the process (SIGUSR1 - a second subscriber keeps the default action away). Cycle after
// cycle the listener delivers its events and stops when the signal arrives. The listeners are not pointers: a struct value with
// value receivers in the odd cycles, a function type in the even ones.
func checkProcessSignal(c overlapCase) *rp.Fail {
	port, err := farm.FreePort([4]byte{127, 0, 0, 1})
	if err != nil {
		return nil
	}
	dest := &net.UDPAddr{IP: net.IPv4(127, 0, 0, 1), Port: int(port)}
	sender, err := net.DialUDP("udp4", nil, dest)
	if err != nil {
		return nil
	}
	defer sender.Close()
	keep := make(chan os.Signal, 8) // (keeps the process alive whatever the library does with q)
	signal.Notify(keep, syscall.SIGUSR1)
	defer signal.Stop(keep)
	q := make(chan os.Signal, 1)
	signal.Notify(q, syscall.SIGUSR1)
	defer signal.Stop(q)
	u := hook.Real(hook.ClientCfg{HasListen: true, ListenIP: [4]byte{127, 0, 0, 1}, ListenPort: port, Debug: c.Debug})
	for cycle := 1; cycle <= 3; cycle++ {
		events := make(chan uint32, 64)
		var l uhppote.Listener = valueListener{events: events, errors: make(chan struct{}, 1), up: make(chan struct{}, 1)}
		if cycle%2 == 0 {
			l = funcListener(func(ix uint32) { events <- ix })
		}
		done := make(chan error, 1)
		go func() {
			defer func() {
				if r := recover(); r != nil {
					done <- fmt.Errorf("PANIC: %v", r)
				}
			}()
			done <- u.Listen(l, q)
		}()
		got := 0
		for deadline := time.Now().Add(5 * time.Second); got == 0; {
			sender.Write(eventDatagram(1))
			select {
			case <-events:
				got++
			case err := <-done:
				return rp.Failf("uhppote.Listen/process-signal/did-not-start", "cycle %d: Listen with a listener of type %T returned %v before any event was delivered", cycle, l, err)
			case <-time.After(10 * time.Millisecond):
				if time.Now().After(deadline) {
					syscall.Kill(os.Getpid(), syscall.SIGUSR1)
					return rp.Failf("uhppote.Listen/process-signal/missing-callbacks", "cycle %d: no event callback within 5 s (listener type %T)", cycle, l)
				}
			}
		}
		for i := 0; i < c.Events; i++ {
			sender.Write(eventDatagram(uint32(2 + i)))
		}
		want := uint32(2)
		for timeout := time.After(3 * time.Second); int(want)-2 < c.Events; {
			select {
			case ix := <-events:
				if ix == 1 {
					continue
				}
				if ix != want {
					syscall.Kill(os.Getpid(), syscall.SIGUSR1)
					return rp.Failf("uhppote.Listen/process-signal/events-lost-or-reordered", "cycle %d: expected event %d, got %d", cycle, want, ix)
				}
				want++
			case <-timeout:
				syscall.Kill(os.Getpid(), syscall.SIGUSR1)
				return rp.Failf("uhppote.Listen/process-signal/events-lost-or-reordered", "cycle %d: events 2..%d were sent, event %d never arrived", cycle, 1+c.Events, want)
			}
		}
		syscall.Kill(os.Getpid(), syscall.SIGUSR1)
		select {
		case err := <-done:
			if err != nil {
				return rp.Failf("uhppote.Listen/process-signal/stop-error", "cycle %d: Listen returned %v after the process received SIGUSR1", cycle, err)
			}
		case <-time.After(6 * time.Second):
			close(q) // (hand-made stop so that the harness can go on)
			return rp.Failf("uhppote.Listen/process-signal/does-not-stop", "cycle %d: the process received SIGUSR1 - delivered to the channel the application registered once with signal.Notify and passes to every Listen call - but the listener is still running after 6 s", cycle)
		}
		for len(keep) > 0 {
			<-keep
		}
		if l, err := net.ListenUDP("udp4", dest); err != nil {
			return rp.Failf("uhppote.Listen/process-signal/address-still-bound", "cycle %d: listen address not free after Listen returned: %v", cycle, err)
		} else {
			l.Close()
		}
	}
	return nil
}

// stop-before-listen: the stop request is already in the (buffered) channel when Listen is called - the user pressed Ctrl-C
// during start-up, a supervisor asked twice. The listener stops when signalled, whenever the signal was given: Listen returns
// without error, the address is free, and a later Listen on the same client with the same channel works as usual.
func checkStopBefore(c overlapCase) *rp.Fail {
	port, err := farm.FreePort([4]byte{127, 0, 0, 1})
	if err != nil {
		return nil
	}
	dest := &net.UDPAddr{IP: net.IPv4(127, 0, 0, 1), Port: int(port)}
	u := hook.Real(hook.ClientCfg{HasListen: true, ListenIP: [4]byte{127, 0, 0, 1}, ListenPort: port, Debug: c.Debug})
	q := make(chan os.Signal, 4)
	for i := 0; i < c.Events; i++ { // (Events = how many stop requests are waiting)
		q <- os.Interrupt
	}
	for cycle := 0; cycle < c.Events; cycle++ {
		rec := &orderRec{}
		done := make(chan error, 1)
		go func() { done <- u.Listen(rec, q) }()
		select {
		case err := <-done:
			if err != nil {
				return rp.Failf("uhppote.Listen/stop-before-listen/stop-error", "Listen returned %v (a stop request was waiting in the channel when it was called)", err)
			}
		case <-time.After(10 * time.Second):
			q <- os.Interrupt
			return rp.Failf("uhppote.Listen/stop-before-listen/does-not-stop", "Listen call %d has not returned 10 s after it was called although a stop request was waiting in its channel (%d were put there before the first call)", cycle+1, c.Events)
		}
		if l, err := net.ListenUDP("udp4", dest); err != nil {
			return rp.Failf("uhppote.Listen/stop-before-listen/address-still-bound", "listen address not free after Listen returned: %v", err)
		} else {
			l.Close()
		}
	}
	return nil
}
