package c10

import (
	"fmt"
	"net"
	"os"
	"sync"
	"time"

	"github.com/uhppoted/uhppote-core/types"
	"verif/harness/ev"
	"verif/harness/farm"
	"verif/harness/hook"
	"verif/harness/rp"
	"verif/harness/spec"
)

// Two usage patterns around a RUNNING listener, both on one client instance:
//
// overlap: while Listen is running, Listen is called again on the same client (an application restarting its listener
// without having stopped the old one; the call fails with 'address in use' or whatever - its result is not judged). The
// running listener is not disturbed: the events that arrive afterwards are delivered once and in order, malformed
// datagrams are reported, and it stops when signalled.
//
// stop-from-callback: the event callback itself gives the stop signal and waits (bounded, for the harness's sake) for Listen
// to return - the listener stops when signalled, whoever signals it; a Listen that waits for the callback that waits for it
// never stops.
type overlapCase struct {
	Kind      string `json:"kind"`
	Overlaps  int    `json:"overlapping_calls,omitempty"`
	Events    int    `json:"events"`
	Malformed int    `json:"malformed,omitempty"`
	Debug     bool   `json:"debug,omitempty"`
}

type orderRec struct {
	mu      sync.Mutex
	indices []uint32
	errors  int
	onEvent func(ix uint32)
}

func (r *orderRec) OnConnected() {}
func (r *orderRec) OnEvent(s *types.Status) {
	r.mu.Lock()
	r.indices = append(r.indices, s.Event.Index)
	f := r.onEvent
	r.mu.Unlock()
	if f != nil {
		f(s.Event.Index)
	}
}
func (r *orderRec) OnError(error) bool {
	r.mu.Lock()
	r.errors++
	r.mu.Unlock()
	return true
}
func (r *orderRec) snapshot() ([]uint32, int) {
	r.mu.Lock()
	defer r.mu.Unlock()
	return append([]uint32(nil), r.indices...), r.errors
}

func eventDatagram(index uint32) []byte {
	b := make([]byte, 64)
	spec.Header(b, 0x17, 0x20, 405419896)
	spec.PutLE32(b[8:], index)
	b[12] = 1
	return b
}

func checkOverlap(c overlapCase) *rp.Fail {
	ev.Case("running-listener/"+c.Kind, true, fmt.Sprintf("%+v", c))
	f := runOverlap(c)
	if f != nil {
		// the waits are generous but finite: a failure has to repeat
		if f2 := runOverlap(c); f2 == nil {
			ev.Inconclusive(1)
			return nil
		} else {
			f = f2
		}
	}
	return f
}

func runOverlap(c overlapCase) *rp.Fail {
	port, err := farm.FreePort([4]byte{127, 0, 0, 1})
	if err != nil {
		return nil
	}
	dest := &net.UDPAddr{IP: net.IPv4(127, 0, 0, 1), Port: int(port)}
	sender, err := net.DialUDP("udp4", nil, dest)
	if err != nil {
		return nil
	}
	defer sender.Close()
	u := hook.Real(hook.ClientCfg{HasListen: true, ListenIP: [4]byte{127, 0, 0, 1}, ListenPort: port, Debug: c.Debug})
	rec := &orderRec{}
	q := make(chan os.Signal, 1)
	done := make(chan error, 1)
	go func() { done <- u.Listen(rec, q) }()
	// event 1 (retry until the listener is bound)
	for deadline := time.Now().Add(5 * time.Second); ; time.Sleep(10 * time.Millisecond) {
		sender.Write(eventDatagram(1))
		time.Sleep(5 * time.Millisecond)
		if got, _ := rec.snapshot(); len(got) > 0 {
			break
		}
		if time.Now().After(deadline) {
			q <- os.Interrupt
			return rp.Failf("uhppote.Listen/missing-callbacks", "no event callback within 5 s")
		}
	}
	waitFor := func(n int, errors int) ([]uint32, int) {
		for deadline := time.Now().Add(3 * time.Second); ; time.Sleep(2 * time.Millisecond) {
			got, errs := rec.snapshot()
			k := 0
			for _, ix := range got {
				if ix > 1 {
					k++
				}
			}
			if (k >= n && errs >= errors) || time.Now().After(deadline) {
				return got, errs
			}
		}
	}
	inOrder := func(got []uint32, n int) *rp.Fail {
		want := uint32(2)
		for _, ix := range got {
			if ix == 1 && want == 2 {
				continue
			}
			if ix != want {
				return rp.Failf("uhppote.Listen/"+c.Kind+"/events-lost-or-reordered", "running listener (%+v): events 2..%d were sent in order after event 1; callbacks: %v", c, n+1, got)
			}
			want++
		}
		if int(want)-2 != n {
			return rp.Failf("uhppote.Listen/"+c.Kind+"/events-lost-or-reordered", "running listener (%+v): events 2..%d were sent in order after event 1; callbacks: %v", c, n+1, got)
		}
		return nil
	}
	switch c.Kind {
	case "overlap":
		for i := 0; i < c.Overlaps; i++ {
			q2 := make(chan os.Signal, 1)
			second := make(chan struct{})
			go func() {
				defer close(second)
				defer func() { recover() }()
				u.Listen(&orderRec{}, q2)
			}()
			select {
			case <-second:
			case <-time.After(300 * time.Millisecond):
				// (a second listener that did start - address reuse - is stopped again before the events are sent)
				q2 <- os.Interrupt
				select {
				case <-second:
				case <-time.After(3 * time.Second):
				}
			}
		}
		_, errs0 := rec.snapshot()
		for i := 0; i < c.Events; i++ {
			sender.Write(eventDatagram(uint32(2 + i)))
			if i < c.Malformed {
				sender.Write([]byte{0x17, 0x20, 1, 2, 3})
			}
			time.Sleep(time.Millisecond)
		}
		got, errs := waitFor(c.Events, errs0+c.Malformed)
		if f := inOrder(got, c.Events); f != nil {
			return f
		}
		if errs-errs0 != c.Malformed {
			return rp.Failf("uhppote.Listen/overlap/error-callbacks", "running listener (%+v): %d malformed datagrams sent after the overlapping Listen call, %d error callbacks", c, c.Malformed, errs-errs0)
		}
		q <- os.Interrupt
	case "stop-from-callback":
		returned := make(chan struct{})
		rec.mu.Lock()
		rec.onEvent = func(ix uint32) {
			if int(ix) == 1+c.Events {
				q <- os.Interrupt
				select {
				case <-returned:
				case <-time.After(8 * time.Second):
				}
			}
		}
		rec.mu.Unlock()
		defer close(returned)
		for i := 0; i < c.Events; i++ {
			sender.Write(eventDatagram(uint32(2 + i)))
			time.Sleep(time.Millisecond)
		}
		got, _ := waitFor(c.Events, 0)
		if f := inOrder(got, c.Events); f != nil {
			select {
			case q <- os.Interrupt:
			default:
			}
			return f
		}
	}
	select {
	case err := <-done:
		if err != nil {
			return rp.Failf("uhppote.Listen/"+c.Kind+"/stop-error", "Listen returned %v after the stop signal (%+v)", err, c)
		}
	case <-time.After(6 * time.Second):
		return rp.Failf("uhppote.Listen/"+c.Kind+"/does-not-stop", "Listen has not returned 6 s after the stop signal (%+v)", c)
	}
	if l, err := net.ListenUDP("udp4", dest); err != nil {
		return rp.Failf("uhppote.Listen/"+c.Kind+"/address-still-bound", "listen address not free after Listen returned (%+v): %v", c, err)
	} else {
		l.Close()
	}
	return nil
}

func sweepOverlap(yield func(overlapCase) bool) {
	cases := []overlapCase{
		{Kind: "overlap", Overlaps: 1, Events: 3, Malformed: 1},
		{Kind: "overlap", Overlaps: 2, Events: 5, Malformed: 2, Debug: true},
		{Kind: "overlap", Overlaps: 0, Events: 4, Malformed: 4},
		{Kind: "stop-from-callback", Events: 1},
		{Kind: "stop-from-callback", Events: 4, Debug: true},
	}
	if ev.Thorough() {
		for n := 1; n <= 6; n++ {
			cases = append(cases, overlapCase{Kind: "overlap", Overlaps: n, Events: 2 * n, Malformed: n % 3}, overlapCase{Kind: "stop-from-callback", Events: n})
		}
	}
	for i, c := range cases {
		if ev.Mine(i) && !yield(c) {
			return
		}
	}
}
