// Command verif is the driver behind every MANIFEST.json command:
//
//	verif <property-id> <quick|thorough>     build the check from /repo's working tree, run its shards,
//	                                         merge their evidence, print VIOLATION / KNOWN-FINDING lines
//	verif replay <path>                      re-execute one saved failing case without random generation
//
// Exit codes: 0 = held on everything explored, 1 = violation, 2 = harness trouble (inconclusive).
package main

import (
	"bytes"
	"encoding/binary"
	"encoding/json"
	"fmt"
	"os"
	"os/exec"
	"path/filepath"
	"regexp"
	"sort"
	"strconv"
	"strings"
	"sync"
	"time"

	"verif/harness/ev"
	"verif/harness/known"
)

type fuzzTarget struct {
	name string
	secs int
}

type config struct {
	pkg      string
	race     bool
	shardsQ  int
	shardsT  int
	timeoutQ time.Duration
	timeoutT time.Duration
	level    string
	fuzz     []fuzzTarget
	// arch32: the work of one shard is run a second time by a 32-bit build of the check (GOARCH=386, runs natively on
	// amd64 Linux): the library is deployed on 32-bit ARM boards, where int and uint are 32 bits wide
	arch32 bool
}

var configs = map[string]config{
	"C01": {pkg: "./checks/c01", shardsQ: 4, shardsT: 16, level: "exploration", arch32: true},
	"C02": {pkg: "./checks/c02", shardsQ: 8, shardsT: 16, level: "exploration", fuzz: []fuzzTarget{{"FuzzReply", 120}}, arch32: true},
	"C03": {pkg: "./checks/c03", shardsQ: 4, shardsT: 16, level: "fault_enumeration", fuzz: []fuzzTarget{{"FuzzDatagrams", 90}}},
	"C04": {pkg: "./checks/c04", shardsQ: 4, shardsT: 16, level: "exploration", fuzz: []fuzzTarget{{"FuzzUnmarshalAll", 90}, {"FuzzAPIReply", 90}, {"FuzzListenHandler", 60}}},
	"C05": {pkg: "./checks/c05", shardsQ: 4, shardsT: 16, level: "exploration", fuzz: []fuzzTarget{{"FuzzRoundTrip", 120}}, arch32: true},
	"C06": {pkg: "./checks/c06", shardsQ: 8, shardsT: 16, level: "exploration"},
	"C07": {pkg: "./checks/c07", shardsQ: 4, shardsT: 16, level: "exploration", fuzz: []fuzzTarget{{"FuzzArgs", 90}}, arch32: true},
	"C08": {pkg: "./checks/c08", race: true, shardsQ: 4, shardsT: 12, level: "exploration"},
	"C09": {pkg: "./checks/c09", shardsQ: 4, shardsT: 12, level: "fault_enumeration"},
	"C10": {pkg: "./checks/c10", shardsQ: 4, shardsT: 12, level: "exploration"},
	"C11": {pkg: "./checks/c11", shardsQ: 4, shardsT: 12, level: "exploration"},
	"C12": {pkg: "./checks/c12", shardsQ: 2, shardsT: 16, level: "exploration", fuzz: []fuzzTarget{{"FuzzBCD", 90}}, arch32: true},
	"C13": {pkg: "./checks/c13", shardsQ: 8, shardsT: 16, level: "exploration", arch32: true},
	"C14": {pkg: "./checks/c14", shardsQ: 4, shardsT: 16, level: "exploration", fuzz: []fuzzTarget{{"FuzzText", 120}}, arch32: true},
	"C15": {pkg: "./checks/c15", shardsQ: 4, shardsT: 16, level: "exploration", fuzz: []fuzzTarget{{"FuzzAddr", 90}}, arch32: true},
	"C16": {pkg: "./checks/c16", shardsQ: 4, shardsT: 16, level: "exploration", arch32: true},
	"C17": {pkg: "./checks/c17", shardsQ: 4, shardsT: 16, level: "exploration", arch32: true},
	"C18": {pkg: "./checks/c18", shardsQ: 4, shardsT: 16, level: "exploration", fuzz: []fuzzTarget{{"FuzzLayout", 120}}, arch32: true},
}

var root = "/verif"

// outRoot is where evidence/ and replays/ are written: root itself, or - when VERIF_REPO points
// at a scratch copy of the repository (used for the sensitivity experiments, so that several
// seeded changes can be evaluated in parallel without touching /repo) - a private directory
// under root/.build/alt/.
var outRoot = "/verif"
var altTag = ""

func env(extra ...string) []string {
	e := os.Environ()
	e = append(e, "GOFLAGS=-mod=mod", "GOPROXY=off", "GOSUMDB=off", "GOTOOLCHAIN=local", "VERIF_ROOT="+outRoot)
	return append(e, extra...)
}

func fatal2(format string, args ...any) {
	fmt.Printf("HARNESS-ERROR: "+format+"\n", args...)
	os.Exit(2)
}

func seed() int64 {
	s, _ := strconv.ParseInt(os.Getenv("VERIF_SEED"), 10, 64)
	if s == 0 {
		s = 20260927
	}
	return s
}

func build(id string, c config) string { return buildWith(id, c, false) }

// buildWith builds the test binary of a check; with fuzz=true it is instrumented for coverage-guided native fuzzing
// (go test -c -fuzz) and never uses the race detector.
func buildWith(id string, c config, fuzz bool) string {
	bin := filepath.Join(outRoot, ".build", strings.ToLower(id)+".test")
	if fuzz {
		bin = filepath.Join(outRoot, ".build", strings.ToLower(id)+".fuzz.test")
		c.race = false
	}
	os.MkdirAll(filepath.Dir(bin), 0o755)
	args := []string{"test", "-c", "-tags", "verif", "-o", bin}
	if fuzz {
		args = append(args, "-fuzz=.")
	}
	if repo := os.Getenv("VERIF_REPO"); repo != "" {
		mod, err := os.ReadFile(filepath.Join(root, "go.mod"))
		if err != nil {
			fatal2("%v", err)
		}
		alt := filepath.Join(outRoot, "alt.mod")
		os.WriteFile(alt, []byte(strings.Replace(string(mod), "=> /repo", "=> "+repo, 1)), 0o644)
		sum, _ := os.ReadFile(filepath.Join(root, "go.sum"))
		os.WriteFile(filepath.Join(outRoot, "alt.sum"), sum, 0o644)
		args = append(args, "-modfile", alt)
	}
	if c.race {
		args = append(args, "-race")
	}
	args = append(args, c.pkg)
	cmd := exec.Command("go", args...)
	cmd.Dir = root
	cmd.Env = env()
	if b, err := cmd.CombinedOutput(); err != nil {
		fmt.Printf("%s\n", b)
		fatal2("build of %s failed against /repo's working tree: %v", c.pkg, err)
	}
	return bin
}

// libraryTags lists the custom build tags that the library's own source files are constrained by (`//go:build purego`,
// `//go:build !noasm` ...): every term of a constraint in a non-test .go file of the library that is not a term the toolchain
// defines itself (operating systems, architectures, cgo, compilers, release tags, race / msan / asan) and not this
// machinery's own hook tag. A file that is compiled only under such a tag is part of the library as some users build it.
func libraryTags() []string {
	dir := os.Getenv("VERIF_REPO")
	if dir == "" {
		dir = "/repo"
	}
	known := map[string]bool{"verif": true, "ignore": true, "cgo": true, "gc": true, "gccgo": true, "race": true, "msan": true, "asan": true, "unix": true, "boringcrypto": true, "tools": true}
	for _, w := range strings.Fields("aix android darwin dragonfly freebsd hurd illumos ios js linux nacl netbsd openbsd plan9 solaris wasip1 windows zos 386 amd64 amd64p32 arm armbe arm64 arm64be loong64 mips mipsle mips64 mips64le mips64p32 mips64p32le ppc ppc64 ppc64le riscv riscv64 s390 s390x sparc sparc64 wasm") {
		known[w] = true
	}
	found := map[string]bool{}
	filepath.WalkDir(dir, func(path string, d os.DirEntry, err error) error {
		if err != nil {
			return nil
		}
		if d.IsDir() {
			if n := d.Name(); n != "." && (strings.HasPrefix(n, ".") || n == "testdata" || n == "vendor") && path != dir {
				return filepath.SkipDir
			}
			return nil
		}
		if !strings.HasSuffix(path, ".go") || strings.HasSuffix(path, "_test.go") {
			return nil
		}
		b, err := os.ReadFile(path)
		if err != nil {
			return nil
		}
		for _, line := range strings.SplitN(string(b), "\n", 40) {
			line = strings.TrimSpace(line)
			if strings.HasPrefix(line, "package ") {
				break
			}
			if !strings.HasPrefix(line, "//go:build ") {
				continue
			}
			term := ""
			for _, ch := range line[len("//go:build "):] + " " {
				if ch == '_' || ch == '.' || ch >= '0' && ch <= '9' || ch >= 'a' && ch <= 'z' || ch >= 'A' && ch <= 'Z' {
					term += string(ch)
					continue
				}
				if term != "" && !known[term] && !(strings.HasPrefix(term, "go1.") || strings.HasPrefix(term, "goexperiment.")) {
					found[term] = true
				}
				term = ""
			}
		}
		return nil
	})
	var out []string
	for t := range found {
		out = append(out, t)
	}
	sort.Strings(out)
	if len(out) > 3 {
		out = out[:3]
	}
	return out
}

// buildTagged builds the check's test binary with one more build tag (no race detector).
func buildTagged(id string, c config, tag string) (string, error) {
	bin := filepath.Join(outRoot, ".build", strings.ToLower(id)+".tag-"+tag+".test")
	args := []string{"test", "-c", "-tags", "verif," + tag, "-o", bin}
	if repo := os.Getenv("VERIF_REPO"); repo != "" {
		args = append(args, "-modfile", filepath.Join(outRoot, "alt.mod")) // (written by the main build just before)
	}
	args = append(args, c.pkg)
	cmd := exec.Command("go", args...)
	cmd.Dir = root
	cmd.Env = env()
	if b, err := cmd.CombinedOutput(); err != nil {
		return "", fmt.Errorf("%v: %s", err, b)
	}
	return bin, nil
}

// build32 builds the 32-bit variant of the check's test binary (no race detector, no cgo).
func build32(id string, c config) string {
	bin := filepath.Join(outRoot, ".build", strings.ToLower(id)+".386.test")
	args := []string{"test", "-c", "-tags", "verif", "-o", bin}
	if repo := os.Getenv("VERIF_REPO"); repo != "" {
		args = append(args, "-modfile", filepath.Join(outRoot, "alt.mod")) // (written by the 64-bit build just before)
	}
	args = append(args, c.pkg)
	cmd := exec.Command("go", args...)
	cmd.Dir = root
	cmd.Env = append(env(), "GOARCH=386", "GO386=sse2", "CGO_ENABLED=0")
	if b, err := cmd.CombinedOutput(); err != nil {
		fmt.Printf("%s\n", b)
		fatal2("32-bit build of %s failed against /repo's working tree: %v", c.pkg, err)
	}
	return bin
}

type shardResult struct {
	shard   int
	exit    int
	out     *ev.Out
	log     string
	logPath string
	races   []raceReport
	timeout bool
}

type raceReport struct {
	fingerprint string
	text        string
	library     bool
}

func runShard(bin, id, tier string, c config, shard, shards int, dir string, timeout time.Duration, label ...string) shardResult {
	name := strconv.Itoa(shard)
	if len(label) > 0 {
		name += "-" + label[0]
		c.race = false
	}
	outPath := filepath.Join(dir, fmt.Sprintf("shard-%s.json", name))
	logPath := filepath.Join(dir, fmt.Sprintf("shard-%s.log", name))
	racePrefix := filepath.Join(dir, fmt.Sprintf("race-%s", name))
	cwd := filepath.Join(dir, fmt.Sprintf("cwd-%s", name))
	os.MkdirAll(cwd, 0o755)
	cmd := exec.Command(bin, "-test.timeout", timeout.String(), "-test.v=false")
	cmd.Dir = cwd
	e := env("VERIF_TIER="+tier, "VERIF_SEED="+strconv.FormatInt(seed(), 10), "VERIF_SHARD="+strconv.Itoa(shard), "VERIF_SHARDS="+strconv.Itoa(shards), "VERIF_OUT="+outPath)
	if c.race {
		e = append(e, "GORACE=log_path="+racePrefix+" halt_on_error=0 history_size=3")
	}
	if len(label) > 0 && strings.HasPrefix(label[0], "tag-") {
		e = append(e, "VERIF_BUILD_TAG="+label[0][4:])
	}
	cmd.Env = e
	var buf bytes.Buffer
	cmd.Stdout = &buf
	cmd.Stderr = &buf
	err := cmd.Run()
	res := shardResult{shard: shard, log: buf.String(), logPath: logPath}
	os.WriteFile(logPath, buf.Bytes(), 0o644)
	if err != nil {
		if ee, ok := err.(*exec.ExitError); ok {
			res.exit = ee.ExitCode()
		} else {
			res.exit = 2
		}
	}
	if strings.Contains(res.log, "panic: test timed out") {
		res.timeout = true
	}
	if b, err := os.ReadFile(outPath); err == nil {
		var o ev.Out
		if json.Unmarshal(b, &o) == nil && o.Complete {
			res.out = &o
		}
	}
	if c.race {
		matches, _ := filepath.Glob(racePrefix + ".*")
		for _, m := range matches {
			b, _ := os.ReadFile(m)
			res.races = append(res.races, parseRaces(string(b))...)
		}
	}
	return res
}

var frameRe = regexp.MustCompile(`^  ([^\s(]+(?:\([^)]*\))?[^\s(]*)\(\)$`)

// parseRaces splits a race-detector log into reports and fingerprints each by the first
// library frame of the two conflicting accesses.
func parseRaces(log string) []raceReport {
	var reports []raceReport
	for _, block := range strings.Split(log, "==================") {
		if !strings.Contains(block, "WARNING: DATA RACE") {
			continue
		}
		sections := strings.Split(strings.TrimSpace(block), "\n\n")
		var fps []string
		lib := false
		for i, s := range sections {
			if i >= 2 {
				break
			}
			lines := strings.Split(s, "\n")
			for j := 0; j < len(lines); j++ {
				m := frameRe.FindStringSubmatch(lines[j])
				if m == nil {
					continue
				}
				if strings.Contains(m[1], "github.com/uhppoted/uhppote-core/") {
					lib = true
					fps = append(fps, strings.TrimPrefix(m[1], "github.com/uhppoted/uhppote-core/"))
					break
				}
			}
		}
		// library frames anywhere in the access stacks make this a library race
		if !lib {
			for i, s := range sections {
				if i < 2 && strings.Contains(s, "github.com/uhppoted/uhppote-core/") {
					lib = true
				}
			}
		}
		sort.Strings(fps)
		reports = append(reports, raceReport{fingerprint: "race:" + strings.Join(fps, "|"), text: block, library: lib})
	}
	return reports
}

func mergeHashes(files []string) (int64, error) {
	var all []uint64
	for _, f := range files {
		b, err := os.ReadFile(f)
		if err != nil {
			return 0, err
		}
		for i := 0; i+8 <= len(b); i += 8 {
			all = append(all, binary.LittleEndian.Uint64(b[i:]))
		}
	}
	sort.Slice(all, func(i, j int) bool { return all[i] < all[j] })
	var n int64
	for i := range all {
		if i == 0 || all[i] != all[i-1] {
			n++
		}
	}
	return n, nil
}

type evidence struct {
	PropertyID  string         `json:"property_id"`
	Tier        string         `json:"tier"`
	Seed        int64          `json:"seed"`
	Level       string         `json:"level"`
	Coverage    map[string]any `json:"coverage"`
	Assumptions []string       `json:"assumptions"`
	WallS       float64        `json:"wall_s"`
	Violations  int            `json:"violations"`
}

func main() {
	if r := os.Getenv("VERIF_ROOT"); r != "" {
		root = r
	}
	outRoot = root
	if repo := os.Getenv("VERIF_REPO"); repo != "" {
		altTag = fmt.Sprintf("%016x", fnv(repo))
		outRoot = filepath.Join(root, ".build", "alt", altTag)
		os.MkdirAll(outRoot, 0o755)
		if b, err := os.ReadFile(filepath.Join(root, "known_findings.json")); err == nil {
			os.WriteFile(filepath.Join(outRoot, "known_findings.json"), b, 0o644)
		}
	}
	if len(os.Args) >= 3 && os.Args[1] == "replay" {
		replay(os.Args[2])
		return
	}
	if len(os.Args) < 3 {
		fmt.Println("usage: verif <property-id> <quick|thorough> | verif replay <path>")
		os.Exit(2)
	}
	id, tier := os.Args[1], os.Args[2]
	c, ok := configs[id]
	if !ok {
		fatal2("unknown property %q", id)
	}
	if tier != "quick" && tier != "thorough" {
		fatal2("unknown tier %q", tier)
	}
	if err := known.Load(filepath.Join(root, "known_findings.json")); err != nil {
		fatal2("known_findings.json: %v", err)
	}
	started := time.Now()
	bin := build(id, c)

	shards, timeout := c.shardsQ, c.timeoutQ
	if tier == "thorough" {
		shards, timeout = c.shardsT, c.timeoutT
	}
	if timeout == 0 {
		timeout = 15 * time.Minute
		if tier == "thorough" {
			timeout = 90 * time.Minute
		}
	}
	dir := filepath.Join(outRoot, ".build", "out", id, tier)
	os.RemoveAll(dir)
	os.MkdirAll(dir, 0o755)

	results := make([]shardResult, shards, shards+8) // (room for the extra runs below: goroutines hold pointers into it)
	var wg sync.WaitGroup
	for i := 0; i < shards; i++ {
		wg.Add(1)
		go func(i int) {
			defer wg.Done()
			results[i] = runShard(bin, id, tier, c, i, shards, dir, timeout)
		}(i)
	}
	// the extra runs (32-bit process, library build tags) repeat the share of one shard; in the thorough tier a quarter of it - a
	// 32-bit process is slower, and the extra runs must not be what the tier waits for
	extraDiv := 1
	if tier == "thorough" {
		extraDiv = 4
	}
	if c.arch32 && os.Getenv("VERIF_NO_ARCH32") == "" {
		// the share of one shard (chosen by the seed) once more, as a 32-bit process
		bin32 := build32(id, c)
		k := int(seed() % int64(shards))
		results = append(results, shardResult{})
		slot := &results[shards]
		wg.Add(1)
		go func() {
			defer wg.Done()
			*slot = runShard(bin32, id, tier, c, k*extraDiv, shards*extraDiv, dir, timeout, "386")
		}()
	}
	// ... and once more under every custom build tag the library's sources are constrained by (none on the unchanged tree)
	tagged, tagTrouble := []string{}, []string{}
	if c.arch32 && os.Getenv("VERIF_NO_TAGS") == "" {
		for _, tag := range libraryTags() {
			tbin, err := buildTagged(id, c, tag)
			if err != nil {
				// the library does not build under its own tag: that is for the library's build to report, not a property violation
				tagTrouble = append(tagTrouble, fmt.Sprintf("the check does not build with -tags %s: %v", tag, err))
				continue
			}
			tagged = append(tagged, tag)
			k := int(seed() % int64(shards))
			results = append(results, shardResult{})
			slot := &results[len(results)-1]
			wg.Add(1)
			go func(tag string) {
				defer wg.Done()
				*slot = runShard(tbin, id, tier, c, k*extraDiv, shards*extraDiv, dir, timeout, "tag-"+tag)
			}(tag)
		}
	}
	wg.Wait()

	var fuzzNotes []map[string]any
	var violations []string // "replay :: message"
	harness := []string{}

	if tier == "thorough" && len(c.fuzz) > 0 {
		fbin := buildWith(id, c, true)
		for _, ft := range c.fuzz {
			note, viol, herr := runFuzz(id, c, fbin, ft, dir)
			fuzzNotes = append(fuzzNotes, note)
			violations = append(violations, viol...)
			harness = append(harness, herr...)
		}
	}

	// merge -------------------------------------------------------------------------------
	cov := map[string]any{}
	classes := map[string]int64{}
	knownHits := map[string]int64{}
	excluded := map[string]int64{}
	notes := map[string]any{}
	var samples []any
	var evaluations, nontrivial, bulk, inconclusive int64
	var hashFiles []string
	rule := ""
	var assumptions []string
	exhaustive := true
	saturated := false

	for _, r := range results {
		if r.out == nil {
			if strings.Contains(r.log, "github.com/uhppoted/uhppote-core/") && (strings.Contains(r.log, "panic:") || strings.Contains(r.log, "fatal error:")) && !r.timeout {
				// the process died with a stack through library frames: a crash the harness could not recover
				crash := filepath.Join(outRoot, "replays", id, fmt.Sprintf("crash-shard%d-seed%d.log", r.shard, seed()))
				os.MkdirAll(filepath.Dir(crash), 0o755)
				os.WriteFile(crash, []byte(r.log), 0o644)
				violations = append(violations, crash+" :: process crashed with a panic through library frames (unrecoverable, e.g. in a library goroutine)")
			} else if r.timeout {
				harness = append(harness, fmt.Sprintf("shard %d: test binary hit its deadline (%v) - inconclusive; log %s", r.shard, timeout, r.logPath))
			} else {
				harness = append(harness, fmt.Sprintf("shard %d: no result file, exit %d; log %s", r.shard, r.exit, r.logPath))
			}
			continue
		}
		o := r.out
		evaluations += o.Evaluations
		nontrivial += o.Nontrivial
		bulk += o.BulkDistinct
		inconclusive += o.Inconclusive
		for k, v := range o.Classes {
			classes[k] += v
		}
		for k, v := range o.Known {
			knownHits[k] += v
		}
		for k, v := range o.Excluded {
			excluded[k] += v
		}
		for k, v := range o.Notes {
			if f, ok := v.(float64); ok {
				if p, ok := notes[k].(float64); ok {
					notes[k] = p + f
				} else {
					notes[k] = f
				}
			} else if _, ok := notes[k]; !ok {
				notes[k] = v
			}
		}
		if len(samples) < 24 {
			for _, s := range o.Samples {
				if len(samples) < 24 && (r.shard == 0 || len(samples) < 12) {
					samples = append(samples, s)
				}
			}
		}
		if o.Rule != "" {
			rule = o.Rule
			assumptions = o.Assumptions
		}
		if !o.Exhaustive {
			exhaustive = false
		}
		hashFiles = append(hashFiles, o.HashFile)
		for _, v := range o.Violations {
			violations = append(violations, v.Replay+" :: "+v.Message)
		}
		harness = append(harness, o.Harness...)
		if r.exit != 0 && len(o.Violations) == 0 && len(r.races) == 0 {
			harness = append(harness, fmt.Sprintf("shard %d: test binary failed (exit %d) without recording a violation; log %s", r.shard, r.exit, r.logPath))
		}
		for _, rr := range r.races {
			if !rr.library {
				harness = append(harness, fmt.Sprintf("shard %d: data race outside the library (harness bug?) %s", r.shard, rr.fingerprint))
				continue
			}
			if f := known.Open(id, rr.fingerprint); f != nil {
				knownHits[f.ID]++
				continue
			}
			p := filepath.Join(outRoot, "replays", id, fmt.Sprintf("race-%016x.txt", fnv(rr.fingerprint)))
			os.MkdirAll(filepath.Dir(p), 0o755)
			os.WriteFile(p, []byte(rr.text), 0o644)
			violations = append(violations, p+" :: data race in the library ["+rr.fingerprint+"]")
		}
	}
	distinct, err := mergeHashes(hashFiles)
	if err != nil {
		harness = append(harness, "hash merge: "+err.Error())
	}
	distinct += bulk
	_ = saturated

	cov["evaluations"] = evaluations
	cov["distinct_nontrivial"] = distinct
	cov["nontrivial_evaluations"] = nontrivial
	cov["rule"] = rule
	if samples == nil {
		samples = []any{}
	}
	cov["samples"] = samples
	cov["classes"] = classes
	cov["shards"] = shards
	if c.arch32 && os.Getenv("VERIF_NO_TAGS") == "" {
		cov["build_tags"] = map[string]any{"custom_tags_in_the_library_source": tagged, "not_buildable": tagTrouble,
			"rule": "the share of one shard runs once more under every custom build tag that constrains a non-test source file of the library (at most three; none on the unchanged tree)"}
	}
	if c.arch32 && os.Getenv("VERIF_NO_ARCH32") == "" {
		cov["word_sizes"] = fmt.Sprintf("%d shards as 64-bit processes; the share of shard %d of %d once more as a 32-bit process (GOARCH=386)", shards, int(seed()%int64(shards))*extraDiv, shards*extraDiv)
	}
	cov["exhaustive"] = exhaustive && evaluations > 0
	if len(excluded) > 0 {
		cov["excluded_by_known_findings"] = excluded
	}
	if len(knownHits) > 0 {
		cov["known_finding_hits"] = knownHits
	}
	if inconclusive > 0 {
		cov["timing_inconclusive"] = inconclusive
	}
	if len(notes) > 0 {
		cov["notes"] = notes
	}
	if len(fuzzNotes) > 0 {
		cov["native_fuzz"] = fuzzNotes
	}
	if len(harness) > 0 {
		cov["harness_errors"] = harness
	}
	uniq := map[string]bool{}
	var vlist []string
	for _, v := range violations {
		if !uniq[v] {
			uniq[v] = true
			vlist = append(vlist, v)
		}
	}
	if len(vlist) > 0 {
		cov["violations_found"] = vlist
	}

	evd := evidence{PropertyID: id, Tier: tier, Seed: seed(), Level: c.level, Coverage: cov, Assumptions: assumptions, WallS: time.Since(started).Seconds(), Violations: len(vlist)}
	if evd.Assumptions == nil {
		evd.Assumptions = []string{}
	}
	b, _ := json.MarshalIndent(evd, "", " ")
	os.MkdirAll(filepath.Join(outRoot, "evidence"), 0o755)
	if err := os.WriteFile(filepath.Join(outRoot, "evidence", id+".json"), b, 0o644); err != nil {
		harness = append(harness, "cannot write evidence: "+err.Error())
	}

	for _, f := range known.All() {
		if f.Property == id && f.Status == "open" {
			fmt.Printf("KNOWN-FINDING: property=%s %s (id=%s, hits this run: %d)\n", id, f.What, f.ID, knownHits[f.ID])
		}
	}
	fmt.Printf("%s %s: evaluations=%d distinct_nontrivial=%d shards=%d wall=%.1fs\n", id, tier, evaluations, distinct, shards, time.Since(started).Seconds())
	if len(vlist) > 0 {
		for _, v := range vlist {
			parts := strings.SplitN(v, " :: ", 2)
			fmt.Printf("VIOLATION property=%s replay=%s\n", id, parts[0])
			fmt.Printf("  %s\n", parts[1])
		}
		os.Exit(1)
	}
	if len(harness) > 0 {
		for _, h := range harness {
			fmt.Printf("HARNESS-ERROR: %s\n", h)
		}
		os.Exit(2)
	}
	os.Exit(0)
}

func fnv(s string) uint64 {
	var h uint64 = 14695981039346656037
	for i := 0; i < len(s); i++ {
		h ^= uint64(s[i])
		h *= 1099511628211
	}
	return h
}

// runFuzz runs one native fuzz target of the compiled test binary for a bounded time.
func runFuzz(id string, c config, bin string, ft fuzzTarget, dir string) (map[string]any, []string, []string) {
	note := map[string]any{"target": ft.name, "seconds": ft.secs}
	cwd := filepath.Join(dir, "fuzz-"+ft.name)
	os.MkdirAll(cwd, 0o755)
	cache := filepath.Join(cwd, "cache")
	os.MkdirAll(cache, 0o755)
	fbin := bin
	if c.race {
		// fuzzing uses the non-race build
		fbin = bin
	}
	cmd := exec.Command(fbin, "-test.run", "^$", "-test.fuzz", "^"+ft.name+"$", "-test.fuzztime", fmt.Sprintf("%ds", ft.secs), "-test.fuzzcachedir", cache, "-test.timeout", "0")
	cmd.Dir = cwd
	cmd.Env = env("VERIF_TIER=thorough", "VERIF_FUZZ=1", "VERIF_SEED="+strconv.FormatInt(seed(), 10))
	var buf bytes.Buffer
	cmd.Stdout = &buf
	cmd.Stderr = &buf
	err := cmd.Run()
	log := buf.String()
	os.WriteFile(filepath.Join(dir, "fuzz-"+ft.name+".log"), buf.Bytes(), 0o644)
	execs := regexp.MustCompile(`execs: (\d+)`).FindAllStringSubmatch(log, -1)
	if len(execs) > 0 {
		n, _ := strconv.ParseInt(execs[len(execs)-1][1], 10, 64)
		note["execs"] = n
	}
	if ni := regexp.MustCompile(`new interesting: (\d+) \(total: (\d+)\)`).FindAllStringSubmatch(log, -1); len(ni) > 0 {
		note["corpus_total"] = ni[len(ni)-1][2]
	}
	if err == nil {
		note["result"] = "no failure"
		return note, nil, nil
	}
	if m := regexp.MustCompile(`Failing input written to (\S+)`).FindStringSubmatch(log); m != nil {
		src := filepath.Join(cwd, m[1])
		dst := filepath.Join(outRoot, "replays", id, "fuzz-"+ft.name+"-"+filepath.Base(m[1]))
		os.MkdirAll(filepath.Dir(dst), 0o755)
		if b, e := os.ReadFile(src); e == nil {
			os.WriteFile(dst, b, 0o644)
		}
		note["result"] = "failing input " + dst
		msg := "native fuzz target " + ft.name + " failed"
		if i := strings.Index(log, "--- FAIL"); i >= 0 {
			tail := log[i:]
			if len(tail) > 1500 {
				tail = tail[:1500]
			}
			msg += ": " + strings.ReplaceAll(tail, "\n", " | ")
		}
		return note, []string{dst + " :: " + msg}, nil
	}
	if strings.Contains(log, "--- FAIL") {
		// a seed-corpus entry failed: there is no new corpus file, the log names the entry and shows the message
		dst := filepath.Join(outRoot, "replays", id, "fuzzlog-"+ft.name+".txt")
		os.MkdirAll(filepath.Dir(dst), 0o755)
		os.WriteFile(dst, buf.Bytes(), 0o644)
		note["result"] = "seed corpus entry failed, log " + dst
		tail := log[strings.Index(log, "--- FAIL"):]
		if len(tail) > 1200 {
			tail = tail[:1200]
		}
		return note, []string{dst + " :: native fuzz target " + ft.name + " failed on a seed corpus entry: " + strings.ReplaceAll(tail, "\n", " | ")}, nil
	}
	note["result"] = "fuzz run error (inconclusive)"
	tail := log
	if len(tail) > 800 {
		tail = tail[len(tail)-800:]
	}
	return note, nil, []string{"fuzz target " + ft.name + ": " + err.Error() + ": " + tail}
}

func replay(path string) {
	abs, _ := filepath.Abs(path)
	base := filepath.Base(abs)
	id := filepath.Base(filepath.Dir(abs))
	c, ok := configs[id]
	if !ok {
		fatal2("cannot tell the property from the replay path %s (expected …/replays/<id>/<file>)", path)
	}
	if err := known.Load(filepath.Join(root, "known_findings.json")); err != nil {
		fatal2("known_findings.json: %v", err)
	}
	switch {
	case strings.HasPrefix(base, "race-") || strings.HasPrefix(base, "crash-") || strings.HasPrefix(base, "fuzzlog-"):
		fmt.Printf("%s is a saved report of a schedule-dependent failure (data race / crash); re-run the check itself:\n  ./verif.sh %s quick\n", path, id)
		os.Exit(2)
	case strings.HasPrefix(base, "fuzz-"):
		// fuzz-<Target>-<hash>: run the target on exactly that corpus file
		parts := strings.SplitN(strings.TrimPrefix(base, "fuzz-"), "-", 2)
		bin := buildWith(id, c, true)
		cwd := filepath.Join(outRoot, ".build", "out", id, "replay-fuzz")
		os.RemoveAll(cwd)
		corpus := filepath.Join(cwd, "testdata", "fuzz", parts[0])
		os.MkdirAll(corpus, 0o755)
		b, err := os.ReadFile(abs)
		if err != nil {
			fatal2("%v", err)
		}
		os.WriteFile(filepath.Join(corpus, "replay"), b, 0o644)
		cmd := exec.Command(bin, "-test.run", "^"+parts[0]+"$/replay")
		cmd.Dir = cwd
		cmd.Env = env("VERIF_TIER=quick", "VERIF_FUZZ=1")
		outb, err := cmd.CombinedOutput()
		fmt.Printf("%s", outb)
		if err != nil {
			fmt.Printf("VIOLATION property=%s replay=%s\n", id, abs)
			os.Exit(1)
		}
		fmt.Println("replay: the saved input passes on this tree")
		os.Exit(0)
	}
	bin := build(id, c)
	if b, err := os.ReadFile(abs); err == nil {
		var rf struct {
			Arch string `json:"arch"`
			Tag  string `json:"build_tag"`
		}
		if json.Unmarshal(b, &rf) == nil && rf.Arch == "386" {
			bin = build32(id, c) // found by the 32-bit shard: replayed by the 32-bit build
		} else if rf.Tag != "" {
			// found by the run under one of the library's own build tags: replayed by that build
			if tbin, err := buildTagged(id, c, rf.Tag); err == nil {
				bin = tbin
			} else {
				fatal2("cannot build the check with -tags %s: %v", rf.Tag, err)
			}
		}
	}
	cwd := filepath.Join(outRoot, ".build", "out", id, "replay")
	os.MkdirAll(cwd, 0o755)
	cmd := exec.Command(bin, "-test.run", "^TestReplay$", "-test.v", "-test.timeout", "10m")
	cmd.Dir = cwd
	cmd.Env = env("VERIF_TIER=quick", "VERIF_REPLAY="+abs)
	outb, err := cmd.CombinedOutput()
	fmt.Printf("%s", outb)
	if strings.Contains(string(outb), "CHECK-VIOLATION") {
		fmt.Printf("VIOLATION property=%s replay=%s\n", id, abs)
		os.Exit(1)
	}
	if err != nil {
		fatal2("replay run failed without a violation: %v", err)
	}
	fmt.Println("replay: the saved case passes on this tree")
	os.Exit(0)
}
