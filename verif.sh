#!/bin/sh
# Entry point for every MANIFEST.json command: builds the driver if needed and runs it.
#   ./verif.sh <property-id> <quick|thorough>
#   ./verif.sh replay <path>
cd "$(dirname "$0")" || exit 2
export GOFLAGS=-mod=mod GOPROXY=off GOSUMDB=off GOTOOLCHAIN=local
export VERIF_ROOT="$(pwd)"
mkdir -p .build
go build -o .build/verif ./cmd/verif || { echo "HARNESS-ERROR: cannot build the driver"; exit 2; }
exec .build/verif "$@"
